#!/usr/bin/env python3
"""posit_ref.py -- independent second oracle (exact rational arithmetic, fractions.Fraction).

Written separately from /verif/spec (different language, different algorithm: values are Fractions and
rounding searches the encoding lattice using midpoints taken as (n+1)-bit posits), used at replay time
to state the *expected* result next to the one the code returned, and by bin/selfcheck to cross-check
the Rust spec on random and structured inputs.

CLI:  posit_ref.py <op> <n> <es> <hex args...>     e.g.  posit_ref.py fma 32 2 0x48000000 0xff80c 0x2f8100
ops: decode add sub mul div fma fms fsp sqrt from_f64 from_f32 from_int round floor ceil trunc convert(n2 es2)
"""
import sys
from fractions import Fraction
from math import isqrt

NAR = "NaR"


def decode(bits, n, es):
    bits &= (1 << n) - 1
    if bits == 0:
        return Fraction(0)
    if bits == 1 << (n - 1):
        return NAR
    neg = bits >> (n - 1)
    if neg:
        bits = (-bits) & ((1 << n) - 1)
    s = format(bits, "0%db" % n)[1:]  # n-1 bits after the sign
    r0 = s[0]
    run = len(s) - len(s.lstrip(r0))
    k = run - 1 if r0 == "1" else -run
    rest = s[run + 1:]
    e_bits = (rest[:es] + "0" * es)[:es]
    e = int(e_bits, 2) if es else 0
    f_bits = rest[es:]
    f = Fraction(int(f_bits, 2), 1 << len(f_bits)) if f_bits else Fraction(0)
    v = (1 + f) * Fraction(2) ** (k * (1 << es) + e)
    return -v if neg else v


def round_pos(v, n, es):
    """posit-rule rounding of the positive rational v to an n-bit encoding 1..maxpos"""
    maxpos = (1 << (n - 1)) - 1
    lo, hi = 1, maxpos
    # largest encoding whose value <= v (binary search; encodings are monotone in value)
    if v <= decode(1, n, es):
        return 1
    if v >= decode(maxpos, n, es):
        return maxpos
    while hi - lo > 1:
        mid = (lo + hi) // 2
        if decode(mid, n, es) <= v:
            lo = mid
        else:
            hi = mid
    if decode(lo, n, es) == v:
        return lo
    m = decode(2 * lo + 1, n + 1, es)  # midpoint: lo followed by a 1, as an (n+1)-bit posit
    if v < m:
        return lo
    if v > m:
        return lo + 1
    return lo if lo % 2 == 0 else lo + 1


def encode(v, n, es):
    if v == NAR:
        return 1 << (n - 1)
    if v == 0:
        return 0
    r = round_pos(abs(v), n, es)
    return r if v > 0 else (-r) & ((1 << n) - 1)


def sqrt_round(v, n, es):
    """rounding of sqrt(v), v > 0 rational, decided by comparing v with squares"""
    maxpos = (1 << (n - 1)) - 1
    lo, hi = 1, maxpos
    if v <= decode(1, n, es) ** 2:
        return 1
    if v >= decode(maxpos, n, es) ** 2:
        return maxpos
    while hi - lo > 1:
        mid = (lo + hi) // 2
        if decode(mid, n, es) ** 2 <= v:
            lo = mid
        else:
            hi = mid
    if decode(lo, n, es) ** 2 == v:
        return lo
    m = decode(2 * lo + 1, n + 1, es) ** 2
    if v < m:
        return lo
    if v > m:
        return lo + 1
    return lo if lo % 2 == 0 else lo + 1


def f64_value(bits):
    s, e, f = bits >> 63, (bits >> 52) & 0x7FF, bits & ((1 << 52) - 1)
    if e == 0x7FF:
        return NAR
    v = Fraction(f, 1 << 52) * Fraction(2) ** (-1022) if e == 0 else (1 + Fraction(f, 1 << 52)) * Fraction(2) ** (e - 1023)
    return -v if s else v


def f32_value(bits):
    s, e, f = bits >> 31, (bits >> 23) & 0xFF, bits & ((1 << 23) - 1)
    if e == 0xFF:
        return NAR
    v = Fraction(f, 1 << 23) * Fraction(2) ** (-126) if e == 0 else (1 + Fraction(f, 1 << 23)) * Fraction(2) ** (e - 127)
    return -v if s else v


def intfn(v, mode):
    import math
    if mode == "floor":
        return Fraction(math.floor(v))
    if mode == "ceil":
        return Fraction(math.ceil(v))
    if mode == "trunc":
        return Fraction(math.trunc(v))
    fl = math.floor(v)
    d = v - fl
    if d > Fraction(1, 2) or (d == Fraction(1, 2) and fl % 2 == 1):
        return Fraction(fl + 1)
    return Fraction(fl)


def op(name, n, es, args):
    d = lambda x: decode(x, n, es)
    if name == "decode":
        return d(args[0])
    if name in ("add", "sub", "mul", "div"):
        a, b = d(args[0]), d(args[1])
        if a == NAR or b == NAR or (name == "div" and b == 0):
            return encode(NAR, n, es)
        v = {"add": lambda: a + b, "sub": lambda: a - b, "mul": lambda: a * b, "div": lambda: a / b}[name]()
        return encode(v, n, es)
    if name in ("fma", "fms", "fsp"):
        a, b, c = d(args[0]), d(args[1]), d(args[2])
        if NAR in (a, b, c):
            return encode(NAR, n, es)
        v = {"fma": a * b + c, "fms": a * b - c, "fsp": c - a * b}[name]
        return encode(v, n, es)
    if name == "sqrt":
        a = d(args[0])
        if a == NAR or a < 0:
            return encode(NAR, n, es)
        if a == 0:
            return 0
        return sqrt_round(a, n, es)
    if name == "from_f64":
        return encode(f64_value(args[0]), n, es)
    if name == "from_f32":
        return encode(f32_value(args[0]), n, es)
    if name == "from_int":
        return encode(Fraction(args[0]), n, es)
    if name in ("round", "floor", "ceil", "trunc"):
        a = d(args[0])
        return encode(a if a == NAR else intfn(a, name), n, es)
    if name == "convert":
        a = d(args[0])
        return encode(a, args[1], args[2])
    raise SystemExit("unknown op " + name)


if __name__ == "__main__":
    name, n, es = sys.argv[1], int(sys.argv[2]), int(sys.argv[3])
    args = [int(x, 0) for x in sys.argv[4:]]
    r = op(name, n, es, args)
    print(hex(r) if isinstance(r, int) else r)
