#!/usr/bin/env python3-vt
"""gen_tables.py -- correctly rounded reference tables for the P16E1 / P8E0 elementary functions (C11).

For every input bit pattern the posit-rule rounding of the exact mathematical result is DECIDED, not printed:
a candidate encoding is obtained from a 80-bit floating evaluation and then verified against its two neighbouring
(n+1)-bit midpoints with rigorous interval enclosures (mpmath `iv`), doubling the precision (Ziv) until the
enclosure lies strictly on one side of each midpoint.  The finitely many inputs where f(x) is rational
(Lindemann-Weierstrass / Niven) are handled exactly beforehand; everywhere else f(x) is irrational or a
non-dyadic rational and can never equal a dyadic midpoint, so the refinement terminates.
Inverse trigonometric functions are never evaluated in interval arithmetic (iv.atan2 is not rigorous): by
monotonicity  asin_pi(x) ? M  <=>  x ? sin(pi M),  acos_pi(x) ? M  <=>  cos(pi M) ? x,  atan_pi(x) ? M  <=>  x ? tan(pi M).

Output: oracle/tables/<type>_<fn>.rs  (`pub static T_..: [uN; 2^n]`), oracle/tables/mod.rs, oracle/tables/SHA256.
usage: gen_tables.py [--jobs N] [fn ...]
"""
import hashlib
import os
import sys
from fractions import Fraction
from multiprocessing import Pool

from mpmath import iv, mp, mpf

HERE = os.path.dirname(os.path.abspath(__file__))
sys.path.insert(0, HERE)
from posit_ref import decode, NAR  # exact Fraction decode (independent of the Rust spec)

OUT = os.path.join(HERE, "tables")


def frac_to_iv(q):
    """exact dyadic/rational -> interval (division by a power of two is exact; otherwise an enclosure)"""
    return iv.mpf(q.numerator) / iv.mpf(q.denominator)


def cmp_iv(enclose, m, start_prec=120, max_prec=20000):
    """sign of (y - m) where enclose(prec) returns an iv enclosure of y at the given precision; m exact Fraction"""
    prec = start_prec
    while prec <= max_prec:
        iv.prec = prec
        y = enclose()
        mm = frac_to_iv(m)
        if y.b < mm.a:
            return -1
        if y.a > mm.b:
            return 1
        prec *= 2
    raise RuntimeError("enclosure does not separate from midpoint: unexpected exact case")


def round_with(cmp_y, approx, n, es):
    """posit-rule rounding of a positive real y given approx (float-ish positive) and cmp_y(m) = sign(y - m)"""
    maxpos = (1 << (n - 1)) - 1
    # candidate: largest encoding with value <= approx
    lo, hi = 1, maxpos
    sign, man, ex, _bc = approx._mpf_
    a = Fraction(int(man)) * Fraction(2) ** int(ex)
    if a <= decode(1, n, es):
        c = 1
    elif a >= decode(maxpos, n, es):
        c = maxpos
    else:
        while hi - lo > 1:
            mid = (lo + hi) // 2
            if decode(mid, n, es) <= a:
                lo = mid
            else:
                hi = mid
        c = lo
    # verify / adjust with rigorous comparisons against midpoints
    for _ in range(6):
        if c > 1:
            s = cmp_y(decode(2 * c - 1, n + 1, es))
            if s < 0 or (s == 0 and c % 2 == 1):
                c -= 1
                continue
        if c < maxpos:
            s = cmp_y(decode(2 * c + 1, n + 1, es))
            if s > 0 or (s == 0 and c % 2 == 1):
                c += 1
                continue
        return c
    raise RuntimeError("rounding did not stabilise")


def enc_signed(c, neg, n):
    return c if not neg else ((-c) & ((1 << n) - 1))


def exact_round(v, n, es):
    """rounding of an exact rational (used for the exact cases)"""
    from posit_ref import encode
    return encode(v, n, es)


def reduce_mod2(x):
    """x mod 2 in [0, 2) exactly"""
    r = x - 2 * (x // 2)
    return r


def table_entry(fn, bits, n, es):
    nar = 1 << (n - 1)
    x = decode(bits, n, es)
    if x == NAR:
        return nar
    mp.prec = 100

    def fx(q):
        return mpf(q.numerator) / mpf(q.denominator)

    if fn == "exp":
        if x == 0:
            return exact_round(Fraction(1), n, es)
        approx = mp.exp(fx(x))
        return round_with(lambda m: cmp_iv(lambda: iv.exp(frac_to_iv(x)), m), approx, n, es)
    if fn == "exp2":
        if x.denominator == 1:
            return exact_round(Fraction(2) ** int(x), n, es)
        approx = mp.power(2, fx(x))
        return round_with(lambda m: cmp_iv(lambda: iv.exp(frac_to_iv(x) * iv.log(2)), m), approx, n, es)
    if fn in ("ln", "log2"):
        if x <= 0:
            return nar
        if x == 1:
            return 0
        if fn == "log2":
            # exact when x is a power of two
            num, den = x.numerator, x.denominator
            if (num & (num - 1)) == 0 and (den & (den - 1)) == 0:
                return exact_round(Fraction(num.bit_length() - den.bit_length()), n, es)
        neg = x < 1
        if fn == "ln":
            approx = abs(mp.log(fx(x)))
            enc = (lambda: -iv.log(frac_to_iv(x))) if neg else (lambda: iv.log(frac_to_iv(x)))
        else:
            approx = abs(mp.log(fx(x)) / mp.log(2))
            enc = (lambda: -iv.log(frac_to_iv(x)) / iv.log(2)) if neg else (lambda: iv.log(frac_to_iv(x)) / iv.log(2))
        c = round_with(lambda m: cmp_iv(enc, m), approx, n, es)
        return enc_signed(c, neg, n)
    if fn in ("sin_pi", "cos_pi", "tan_pi"):
        r = reduce_mod2(x)  # period 2 (tan: period 1, handled through sin/cos signs below)
        if fn == "tan_pi":
            r1 = x - (x // 1)  # in [0, 1)
            if r1 == 0:
                return 0
            if r1 == Fraction(1, 2):
                return nar
            if r1 == Fraction(1, 4):
                return exact_round(Fraction(1), n, es)
            if r1 == Fraction(3, 4):
                return exact_round(Fraction(-1), n, es)
            neg = r1 > Fraction(1, 2)
            approx = abs(mp.tan(mp.pi * fx(r1)))
            enc = (lambda: -iv.tan(iv.pi * frac_to_iv(r1))) if neg else (lambda: iv.tan(iv.pi * frac_to_iv(r1)))
            c = round_with(lambda m: cmp_iv(enc, m), approx, n, es)
            return enc_signed(c, neg, n)
        if fn == "sin_pi":
            if r == 0 or r == 1:
                return 0
            if r == Fraction(1, 2):
                return exact_round(Fraction(1), n, es)
            if r == Fraction(3, 2):
                return exact_round(Fraction(-1), n, es)
            neg = r > 1
            approx = abs(mp.sin(mp.pi * fx(r)))
            enc = (lambda: -iv.sin(iv.pi * frac_to_iv(r))) if neg else (lambda: iv.sin(iv.pi * frac_to_iv(r)))
        else:
            if r == Fraction(1, 2) or r == Fraction(3, 2):
                return 0
            if r == 0:
                return exact_round(Fraction(1), n, es)
            if r == 1:
                return exact_round(Fraction(-1), n, es)
            neg = Fraction(1, 2) < r < Fraction(3, 2)
            approx = abs(mp.cos(mp.pi * fx(r)))
            enc = (lambda: -iv.cos(iv.pi * frac_to_iv(r))) if neg else (lambda: iv.cos(iv.pi * frac_to_iv(r)))
        c = round_with(lambda m: cmp_iv(enc, m), approx, n, es)
        return enc_signed(c, neg, n)
    if fn == "asin_pi":
        if abs(x) > 1:
            return nar
        if x == 0:
            return 0
        neg = x < 0
        ax = abs(x)
        if ax == 1:
            return enc_signed(exact_round(Fraction(1, 2), n, es), neg, n)
        approx = mp.asin(fx(ax)) / mp.pi
        # y = asin(ax)/pi in (0, 1/2); y ? M  <=>  ax ? sin(pi M)  (M in (0, 1/2]; for M > 1/2: y < M)

        def cmp_y(m):
            if m >= Fraction(1, 2):
                return -1
            return -cmp_iv(lambda: iv.sin(iv.pi * frac_to_iv(m)), ax)
        c = round_with(cmp_y, approx, n, es)
        return enc_signed(c, neg, n)
    if fn == "acos_pi":
        if abs(x) > 1:
            return nar
        if x == 1:
            return 0
        if x == 0:
            return exact_round(Fraction(1, 2), n, es)
        if x == -1:
            return exact_round(Fraction(1), n, es)
        approx = mp.acos(fx(x)) / mp.pi
        # y = acos(x)/pi in (0, 1), decreasing in x:  y ? M  <=>  cos(pi M) ? x   (for M in (0,1); M >= 1: y < M)

        def cmp_y(m):
            if m >= 1:
                return -1
            return cmp_iv(lambda: iv.cos(iv.pi * frac_to_iv(m)), x)
        return round_with(cmp_y, approx, n, es)
    if fn == "atan_pi":
        if x == 0:
            return 0
        neg = x < 0
        ax = abs(x)
        if ax == 1:
            return enc_signed(exact_round(Fraction(1, 4), n, es), neg, n)
        approx = mp.atan(fx(ax)) / mp.pi
        # y = atan(ax)/pi in (0, 1/2): y ? M  <=>  ax ? tan(pi M) for M in (0, 1/2); M >= 1/2: y < M

        def cmp_y(m):
            if m >= Fraction(1, 2):
                return -1
            return -cmp_iv(lambda: iv.tan(iv.pi * frac_to_iv(m)), ax)
        c = round_with(cmp_y, approx, n, es)
        return enc_signed(c, neg, n)
    raise SystemExit("unknown function " + fn)


JOBS = [("p16", "exp", 16, 1), ("p16", "exp2", 16, 1), ("p16", "ln", 16, 1), ("p16", "log2", 16, 1), ("p16", "sin_pi", 16, 1),
        ("p16", "cos_pi", 16, 1), ("p16", "tan_pi", 16, 1), ("p16", "asin_pi", 16, 1), ("p16", "acos_pi", 16, 1), ("p16", "atan_pi", 16, 1),
        ("p8", "exp", 8, 0), ("p8", "ln", 8, 0)]


def chunk(args):
    t, fn, n, es, lo, hi = args
    return [table_entry(fn, b, n, es) for b in range(lo, hi)]


def main():
    argv = sys.argv[1:]
    jobs = 16
    if "--jobs" in argv:
        i = argv.index("--jobs")
        jobs = int(argv[i + 1])
        del argv[i:i + 2]
    sel = [j for j in JOBS if not argv or f"{j[0]}_{j[1]}" in argv]
    os.makedirs(OUT, exist_ok=True)
    with Pool(jobs) as pool:
        for (t, fn, n, es) in sel:
            size = 1 << n
            step = max(size // 256, 1)
            parts = pool.map(chunk, [(t, fn, n, es, lo, min(lo + step, size)) for lo in range(0, size, step)])
            tab = [v for p in parts for v in p]
            ty = "u16" if n == 16 else "u8"
            name = f"T_{t.upper()}_{fn.upper()}"
            with open(os.path.join(OUT, f"{t}_{fn}.rs"), "w") as f:
                f.write(f"// GENERATED by oracle/gen_tables.py: correctly rounded {fn} for every {t.upper()} bit pattern\n")
                f.write(f"pub static {name}: [{ty}; {size}] = [\n")
                for i in range(0, size, 16):
                    f.write("    " + ", ".join(f"0x{v:0{n // 4}x}" for v in tab[i:i + 16]) + ",\n")
                f.write("];\n")
            print(f"{t}_{fn}: {size} entries", flush=True)
    with open(os.path.join(OUT, "mod.rs"), "w") as f:
        f.write("// GENERATED by oracle/gen_tables.py\n")
        for (t, fn, n, es) in JOBS:
            if os.path.exists(os.path.join(OUT, f"{t}_{fn}.rs")):
                f.write(f'#[path = "{t}_{fn}.rs"]\npub mod {t}_{fn};\n')
    h = hashlib.sha256()
    for (t, fn, n, es) in JOBS:
        p = os.path.join(OUT, f"{t}_{fn}.rs")
        if os.path.exists(p):
            h.update(open(p, "rb").read())
    with open(os.path.join(OUT, "SHA256"), "w") as f:
        f.write(h.hexdigest() + "\n")


if __name__ == "__main__":
    main()
