#!/usr/bin/env python3
"""crosscheck.py: build the native runner against /repo, let the REAL crate compute ~25k structured vectors, and check every
result with the independent Fraction oracle (posit_ref.py).  The crate's operations are proved equal to the Rust spec by the checks,
so agreement here validates the Rust spec against the second oracle (and disagreement on the unchanged tree means one of the two
oracles is wrong: setup fails)."""
import os, shutil, subprocess, sys
HERE = os.path.dirname(os.path.abspath(__file__))
sys.path.insert(0, HERE)
import posit_ref as R
V = os.path.dirname(HERE)
dst = "/var/tmp/vsp/crosscheck-%d" % os.getpid()
shutil.rmtree(dst, ignore_errors=True)
os.makedirs(dst + "/repo")
for f in ("Cargo.toml", "Cargo.lock"):
    shutil.copy("/repo/" + f, dst + "/repo/" + f)
for d in ("src", "benches", "examples"):
    shutil.copytree("/repo/" + d, dst + "/repo/" + d)
shutil.copytree(V + "/native/src", dst + "/src")
open(dst + "/Cargo.toml", "w").write(open(V + "/native/Cargo.toml.in").read().replace("@REPO@", dst + "/repo"))
m = open(dst + "/src/main.rs").read().replace("../../spec/mod.rs", V + "/spec/mod.rs").replace("../../oracle/tables", V + "/oracle/tables")
open(dst + "/src/main.rs", "w").write(m)
env = dict(os.environ, CARGO_NET_OFFLINE="true")
subprocess.run(["cargo", "build", "--release", "--offline", "-q"], cwd=dst, env=env, check=True, stdout=subprocess.DEVNULL, stderr=subprocess.DEVNULL)
out = subprocess.run([dst + "/target/release/vnative", "dump", sys.argv[1] if len(sys.argv) > 1 else "1"], cwd=dst, stdout=subprocess.PIPE, text=True, check=True).stdout
shutil.rmtree(dst, ignore_errors=True)
bad = n = 0
for line in out.split("\n"):
    if not line.strip():
        continue
    op, nb, es, a, b, c, r = line.split()
    nb, es, a, b, c, r = int(nb), int(es), int(a, 0), int(b, 0), int(c, 0), int(r, 0)
    args = {"add": [a, b], "sub": [a, b], "mul": [a, b], "div": [a, b], "fma": [a, b, c], "fms": [a, b, c], "fsp": [a, b, c], "sqrt": [a],
            "from_f64": [a], "round": [a], "ceil": [a]}[op]
    want = R.op(op, nb, es, args)
    n += 1
    if want != r:
        bad += 1
        if bad <= 10:
            print("DISAGREE", line, "oracle", hex(want))
print(f"crosscheck: {n} vectors, {bad} disagreements")
sys.exit(1 if bad else 0)
