// Verus unit for C04 / C12: the history part of the quire property, mechanised over the STEP CONTRACT.
// The step contract proved by Kani on the real fdp / fdp_one (arbitrary pre-state) says: for non-NaR operands and an in-range
// exact sum, view(q') = view(q) + t where t is the exact signed term.  Here: by induction on the history, the view after any
// sequence of in-range steps from a cleared quire is the sum of the terms, and exchanging two adjacent steps does not change it
// (every permutation is a product of adjacent transpositions, so the result does not depend on the order of the terms).
// Pure mathematics over int: no repo code is extracted for this unit.
// @v name=verus_quire_history props=C04,C12 tier=quick t=120 fn=induction-over-histories
use vstd::prelude::*;
verus! {

/// view after running the history `ts` (exact signed terms) from view `v0`, one contract step at a time
pub open spec fn run(v0: int, ts: Seq<int>) -> int
    decreases ts.len(),
{
    if ts.len() == 0 { v0 } else { run(v0 + ts[0], ts.subrange(1, ts.len() as int)) }
}

pub open spec fn total(ts: Seq<int>) -> int
    decreases ts.len(),
{
    if ts.len() == 0 { 0 } else { ts[0] + total(ts.subrange(1, ts.len() as int)) }
}

/// after any history the view is the initial view plus the exact sum of the terms
pub proof fn lemma_run_is_sum(v0: int, ts: Seq<int>)
    ensures run(v0, ts) == v0 + total(ts),
    decreases ts.len(),
{
    if ts.len() > 0 {
        lemma_run_is_sum(v0 + ts[0], ts.subrange(1, ts.len() as int));
    }
}

/// from a cleared quire (view 0) the quire holds exactly the sum
pub proof fn lemma_cleared(ts: Seq<int>)
    ensures run(0, ts) == total(ts),
{
    lemma_run_is_sum(0, ts);
}

/// total of a concatenation
pub proof fn lemma_total_concat(a: Seq<int>, b: Seq<int>)
    ensures total(a + b) == total(a) + total(b),
    decreases a.len(),
{
    if a.len() == 0 {
        assert(a + b =~= b);
    } else {
        let a1 = a.subrange(1, a.len() as int);
        assert((a + b).subrange(1, (a + b).len() as int) =~= a1 + b);
        assert((a + b)[0] == a[0]);
        lemma_total_concat(a1, b);
    }
}

/// exchanging two adjacent steps anywhere in a history does not change the result
pub proof fn lemma_adjacent_swap(v0: int, pre: Seq<int>, x: int, y: int, post: Seq<int>)
    ensures run(v0, pre + seq![x, y] + post) == run(v0, pre + seq![y, x] + post),
{
    lemma_run_is_sum(v0, pre + seq![x, y] + post);
    lemma_run_is_sum(v0, pre + seq![y, x] + post);
    lemma_total_concat(pre + seq![x, y], post);
    lemma_total_concat(pre + seq![y, x], post);
    lemma_total_concat(pre, seq![x, y]);
    lemma_total_concat(pre, seq![y, x]);
    assert(total(seq![x, y]) == x + y) by {
        assert(seq![x, y].subrange(1, 2) =~= seq![y]);
        assert(seq![y].subrange(1, 1) =~= Seq::<int>::empty());
        assert(total(seq![y]) == y + total(seq![y].subrange(1, 1)));
    }
    assert(total(seq![y, x]) == y + x) by {
        assert(seq![y, x].subrange(1, 2) =~= seq![x]);
        assert(seq![x].subrange(1, 1) =~= Seq::<int>::empty());
        assert(total(seq![x]) == x + total(seq![x].subrange(1, 1)));
    }
}

/// NaR is absorbing: once a step has produced NaR (modelled as None) every later step keeps it, until clear
pub open spec fn run_nar(v0: Option<int>, ts: Seq<Option<int>>) -> Option<int>
    decreases ts.len(),
{
    if ts.len() == 0 { v0 } else {
        let next = match (v0, ts[0]) { (Some(v), Some(t)) => Some(v + t), _ => None };
        run_nar(next, ts.subrange(1, ts.len() as int))
    }
}
pub proof fn lemma_nar_sticky(ts: Seq<Option<int>>)
    ensures run_nar(None, ts) == None::<int>,
    decreases ts.len(),
{
    if ts.len() > 0 {
        lemma_nar_sticky(ts.subrange(1, ts.len() as int));
    }
}

} // verus!
fn main() {}
