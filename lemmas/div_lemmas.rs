// Verus unit for C01 (division).  Assembled by bin/verus_unit.py on every run:
//   * the text of `const fn div` and `const fn lldiv` is EXTRACTED MECHANICALLY from /repo/src/lib.rs
//     (signature line to the closing brace at column 0, nothing dropped), the requires/ensures clauses
//     below are inserted after the signature and one ghost `proof { .. }` line after the opening brace;
//   * the lemmas that justify the ghost stubs and the integer comparisons of harness/b_div.rs follow.
// @v name=verus_div props=C01 tier=quick t=120 extract=src/lib.rs:div,lldiv cex=leaf_div,leaf_lldiv fn=crate::div,crate::lldiv
use vstd::prelude::*;
verus! {

//@@CONTRACT div
//    requires numer >= 0, denom > 0,
//    ensures r.0 == numer / denom, r.1 == numer % denom, numer == denom * r.0 + r.1, 0 <= r.1 < denom, r.0 >= 0,
//@@GHOST div
//    proof { vstd::arithmetic::div_mod::lemma_fundamental_div_mod(numer as int, denom as int); vstd::arithmetic::div_mod::lemma_mod_pos_bound(numer as int, denom as int); }
//@@CONTRACT lldiv
//    requires numer >= 0, denom > 0,
//    ensures r.0 == numer / denom, r.1 == numer % denom, numer == denom * r.0 + r.1, 0 <= r.1 < denom, r.0 >= 0,
//@@GHOST lldiv
//    proof { vstd::arithmetic::div_mod::lemma_fundamental_div_mod(numer as int, denom as int); vstd::arithmetic::div_mod::lemma_mod_pos_bound(numer as int, denom as int); }
//@@EXTRACTED

/// From the divider contract (n = d*q + r, 0 <= r < d) to the comparisons used by cmp_q in b_div.rs:
/// V = n/d (real) compared with an integer x.
pub proof fn lemma_quotient(n: int, d: int, q: int, r: int, x: int)
    requires d > 0, n == d * q + r, 0 <= r < d,
    ensures
        (n < x * d) <==> (q < x),
        (n == x * d) <==> (q == x && r == 0),
        (n > x * d) <==> (q > x || (q == x && r > 0)),
{
    assert(n - x * d == (q - x) * d + r) by (nonlinear_arith) requires n == d * q + r;
    if q < x {
        assert((q - x) * d <= -d) by (nonlinear_arith) requires q - x <= -1, d > 0;
    } else if q > x {
        assert((q - x) * d >= d) by (nonlinear_arith) requires q - x >= 1, d > 0;
    } else {
        assert((q - x) * d == 0) by (nonlinear_arith) requires q == x;
    }
}

/// midpoint finer than the quotient unit by p = 2^s >= 1: V*p lies in [q*p, (q+1)*p)
pub proof fn lemma_quotient_fine(n: int, d: int, q: int, r: int, p: int, m: int)
    requires d > 0, p >= 1, n == d * q + r, 0 <= r < d,
    ensures
        q * p > m ==> n * p > m * d,
        (q * p == m && r > 0) ==> n * p > m * d,
        (q * p == m && r == 0) ==> n * p == m * d,
        (q + 1) * p <= m ==> n * p < m * d,
{
    assert(n * p == q * p * d + r * p) by (nonlinear_arith) requires n == d * q + r;
    assert(0 <= r * p) by (nonlinear_arith) requires r >= 0, p >= 1;
    assert(r * p < d * p) by (nonlinear_arith) requires r < d, p >= 1;
    if q * p > m {
        assert(q * p * d >= (m + 1) * d) by (nonlinear_arith) requires q * p >= m + 1, d > 0;
        assert((m + 1) * d > m * d) by (nonlinear_arith) requires d > 0;
    }
    if q * p == m {
        assert(q * p * d == m * d) by (nonlinear_arith) requires q * p == m;
        if r > 0 { assert(r * p > 0) by (nonlinear_arith) requires r > 0, p >= 1; }
        if r == 0 { assert(r * p == 0) by (nonlinear_arith) requires r == 0; }
    }
    if (q + 1) * p <= m {
        assert(q * p * d + d * p == (q + 1) * p * d) by (nonlinear_arith);
        assert((q + 1) * p * d <= m * d) by (nonlinear_arith) requires (q + 1) * p <= m, d > 0;
    }
}

/// power-of-two bracket of the quotient (spec::div_bracket): pa = 2^a <= n < 2^(a+1), pb = 2^b <= d < 2^(b+1)
pub proof fn lemma_div_bracket(n: int, d: int, q: int, r: int, pa: int, pb: int, lo: int)
    requires d > 0, n == d * q + r, 0 <= r < d, q >= 0,
             pa > 0, pb > 0, pa <= n < 2 * pa, pb <= d < 2 * pb,
    ensures
        2 * pa <= pb ==> q == 0,
        (pa == lo * pb && lo >= 1) ==> (q < 2 * lo && 2 * q + 2 > lo),
{
    if 2 * pa <= pb {
        // n < 2*pa <= pb <= d  (for powers of two pa < pb is the same as 2*pa <= pb)
        if q >= 1 {
            assert(d * q >= d) by (nonlinear_arith) requires q >= 1, d > 0;
        }
    }
    if pa == lo * pb && lo >= 1 {
        if q >= 2 * lo {
            assert(d * q >= d * (2 * lo)) by (nonlinear_arith) requires q >= 2 * lo, d > 0;
            assert(d * (2 * lo) >= pb * (2 * lo)) by (nonlinear_arith) requires d >= pb, lo >= 1;
            assert(pb * (2 * lo) == 2 * (lo * pb)) by (nonlinear_arith);
        }
        if 2 * q + 2 <= lo {
            assert(d * (q + 1) > n) by (nonlinear_arith) requires n == d * q + r, r < d;
            assert(2 * (d * (q + 1)) == d * (2 * q + 2)) by (nonlinear_arith);
            assert(d * (2 * q + 2) <= d * lo) by (nonlinear_arith) requires 2 * q + 2 <= lo, d > 0;
            assert(d * lo < 2 * pb * lo) by (nonlinear_arith) requires d < 2 * pb, lo >= 1;
            assert(2 * pb * lo == 2 * (lo * pb)) by (nonlinear_arith);
        }
    }
}

/// tiny-addend lemma behind spec::cmp_sum: A and M multiples of a common grid g, 0 < B < g
pub proof fn lemma_tiny_addend(a: int, m: int, b: int, g: int, ka: int, km: int)
    requires g > 0, a == ka * g, m == km * g, 0 < b < g,
    ensures
        a < m ==> a + b < m,
        a > m ==> a - b > m,
        a < m ==> a - b < m,
        a > m ==> a + b > m,
{
    if a < m {
        assert(ka < km) by (nonlinear_arith) requires ka * g < km * g, g > 0;
        assert(km * g - ka * g >= g) by (nonlinear_arith) requires ka + 1 <= km, g > 0;
    }
    if a > m {
        assert(ka > km) by (nonlinear_arith) requires ka * g > km * g, g > 0;
        assert(ka * g - km * g >= g) by (nonlinear_arith) requires km + 1 <= ka, g > 0;
    }
}

} // verus!
fn main() {}
