#!/usr/bin/env python3
"""seed_summary.py: writes seeded/SUMMARY.md from seeded/*/meta.json"""
import glob, json, os
rows = []
for m in sorted(glob.glob("/verif/seeded/*/meta.json")):
    d = json.load(open(m))
    name = os.path.basename(os.path.dirname(m))
    notes = open(os.path.join(os.path.dirname(m), "notes.md")).read() if os.path.exists(os.path.join(os.path.dirname(m), "notes.md")) else ""
    obl = sorted({l.split("replay/")[1].split("-seed")[0].split("-", 1)[1].replace(".json", "") for l in d["check"]["violation_lines"] if "replay/" in l})
    rows.append((name, d["property"], "yes" if d["confirmed"] else "NO", {True: "caught", False: "MISSED"}[d["detected"]] + f" (exit {d['check']['exit']})",
                 d["check"]["cmd"].split("bin/check ")[1], ", ".join(obl[:4]) + (" …" if len(obl) > 4 else ""), d["check"]["wall_s"]))
with open("/verif/seeded/SUMMARY.md", "w") as f:
    f.write("# Seeded changes (written by independent sub-agents from the property text only)\n\n")
    f.write("Each directory holds patch.diff, demo.rs (fails with the change, passes without), notes.md (what the change is and what it needs to manifest), "
            "meta.json (commands run here, suite/demo outcomes, the check's verdict).\n\n")
    f.write("| seed | property | confirmed (suite passes, demo flips) | verdict of the check | check run | obligations that reported it | wall s |\n|---|---|---|---|---|---|---|\n")
    for r in rows:
        f.write("| " + " | ".join(str(x) for x in r) + " |\n")
    n = len(rows); c = sum(1 for r in rows if r[3].startswith("caught"))
    f.write(f"\n{c} of {n} caught by the run shown.\n")
print(open("/verif/seeded/SUMMARY.md").read())
