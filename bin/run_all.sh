#!/bin/sh
# run_all.sh [quick|thorough]: every registered check in sequence (evidence files are rewritten); prints a summary.
tier=${1:-quick}
cd "$(dirname "$0")/.."
rc_all=0
for p in $(python3 -c "import json;print(' '.join(c['property_id'] for c in json.load(open('MANIFEST.json'))['checks']))"); do
  t0=$(date +%s)
  bin/check $p --tier $tier > /var/tmp/run_all_$p.log 2>&1
  rc=$?
  t1=$(date +%s)
  echo "$p exit=$rc wall=$((t1-t0))s $(grep -c 'KNOWN-FINDING' /var/tmp/run_all_$p.log) known-finding line(s)"
  [ $rc -ne 0 ] && { rc_all=1; grep "VIOLATION\|UNDECIDED" /var/tmp/run_all_$p.log | head -5; }
done
exit $rc_all
