#!/usr/bin/env python3
"""timings.py: per-obligation table from the evidence files of the last runs -> evidence/TIMINGS.md"""
import glob, json
rows = []
for f in sorted(glob.glob("/verif/evidence/C*.json")):
    d = json.load(open(f))
    for o in d["coverage"].get("per_obligation", []):
        rows.append((d["property_id"], d["tier"], o["obligation"], o.get("function") or "", o.get("mode") or "", o["status"], o.get("kani_checks") or o.get("verus_verified") or 0,
                     o.get("verification_time_s") or 0, o.get("backend", "")))
    for o in d["coverage"].get("enumerated_not_proved", []):
        rows.append((d["property_id"], d["tier"], o["obligation"], o.get("function") or "", "[" + str(o.get("mode")) + "] native", o["status"], o.get("inputs_evaluated") or 0, o.get("time_s") or 0, "native execution (not a proof)"))
with open("/verif/evidence/TIMINGS.md", "w") as f:
    f.write("| property | tier | obligation | function under contract | mode | status | checks / inputs | time s | back end |\n|---|---|---|---|---|---|---|---|---|\n")
    for r in rows:
        f.write("| " + " | ".join(str(x) for x in r) + " |\n")
print(len(rows), "rows")
