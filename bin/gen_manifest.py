#!/usr/bin/env python3
"""gen_manifest.py: writes /verif/MANIFEST.json from contracts.PROPERTY_META and the harness metadata."""
import importlib.util
import json
import os
import re
import glob

VERIF = os.path.dirname(os.path.dirname(os.path.abspath(__file__)))
spec = importlib.util.spec_from_file_location("contracts", os.path.join(VERIF, "contracts.py"))
C = importlib.util.module_from_spec(spec)
spec.loader.exec_module(C)

props = [json.loads(l) for l in open(os.path.join(VERIF, "properties.jsonl"))]
have = set()
for path in glob.glob(os.path.join(VERIF, "harness", "*.rs")):
    for m in re.finditer(r"// @h .*?props=(\S+)", open(path).read()):
        have.update(m.group(1).split(","))

checks = []
na = []
for p in props:
    pid = p["id"]
    meta = C.PROPERTY_META.get(pid)
    if not meta or meta.get("not_applicable") or pid not in have:
        na.append({"property_id": pid, "reason": (meta or {}).get("not_applicable") or "no check registered in this revision"})
        continue
    checks.append({
        "property_id": pid,
        "quick_cmd": f"bin/check {pid} --tier quick",
        "thorough_cmd": f"bin/check {pid} --tier thorough",
        "evidence_file": f"/verif/evidence/{pid}.json",
        "replay_cmd_template": f"bin/check {pid} --replay {{path}}",
        "engine": "kani-contracts",
        "level_claimed": {"category": meta.get("level", "proof"), "text": meta["text"], "design_ref": meta.get("design_ref", "DESIGN.md §5 " + pid)},
        "level_note": meta["note"],
        "technique": meta.get("technique", "contract-based deductive verification: pre/postconditions on the real functions, discharged by Kani 0.68 / CBMC 6.11 (Verus for pure-arithmetic units)"),
    })

man = {
    "version": 1,
    "setup_cmd": "bin/setup",
    "hooks": {
        "guard": "kani",
        "enable": "no hook lives in /repo: every check weaves #[cfg_attr(kani, kani::requires/ensures)] attributes and #[cfg(kani)] harness modules into a scratch copy of /repo's working tree (bin/weave.py); cfg(kani) is set only by cargo-kani",
        "baseline_off_cmd": "cd /repo && cargo test --workspace --no-fail-fast --offline",
        "source_commits": [],
        "add_only": True,
    },
    "engines": [
        {"name": "kani-contracts", "path": "/verif/bin/check", "serves_properties": [c["property_id"] for c in checks],
         "kind_free_text": "weave contracts into a scratch copy of /repo, discharge every obligation with Kani 0.68 (CBMC 6.11, CaDiCaL), Verus for extracted pure-arithmetic functions and spec lemmas, native replay of counterexamples"},
    ],
    "checks": checks,
    "not_applicable": na,
    "notes": "fix: commits in /repo are listed in known_findings.json (fixed entries); DESIGN.md describes approach, trusted base and limits.",
}
with open(os.path.join(VERIF, "MANIFEST.json"), "w") as f:
    json.dump(man, f, indent=1)
print(f"MANIFEST: {len(checks)} checks, {len(na)} not_applicable")
