#!/usr/bin/env python3
"""weave: copy /repo's current working tree into a scratch crate and add, mechanically,
  (1) contract attributes (#[cfg_attr(kani, kani::requires/ensures(..))]) above the real functions
      named in /verif/contracts.py,
  (2) #[cfg(kani)] child modules holding the proof harnesses (so that harnesses can name private items),
  (3) the spec library as crate::__vspec.
Function bodies are never rewritten: the woven tree differs from /repo only by *added* lines, and the
unified diff of every touched file is written next to the scratch copy (weave.diff).

Variant "A": contract attributes everywhere.  Variant "B": the functions listed with `stubbed_in_b`
carry no attributes (Kani 0.68 cannot compile a crate in which one function has contract attributes
and is also the target of a hand-written #[kani::stub]); harnesses marked variant=B run there.
"""
import difflib
import importlib.util
import json
import os
import re
import shutil
import sys

VERIF = os.path.dirname(os.path.dirname(os.path.abspath(__file__)))


def load_contracts():
    spec = importlib.util.spec_from_file_location("contracts", os.path.join(VERIF, "contracts.py"))
    mod = importlib.util.module_from_spec(spec)
    spec.loader.exec_module(mod)
    return mod


def find_anchor(lines, pattern, nth=0, after=None):
    """index of the nth line matching `pattern` (regex, searched on stripped lines); `after` = regex of a
    line that must occur before the match (e.g. an impl header)"""
    start = 0
    if after:
        rx = re.compile(after)
        for i, l in enumerate(lines):
            if rx.search(l):
                start = i
                break
        else:
            return None
    rx = re.compile(pattern)
    hits = [i for i in range(start, len(lines)) if rx.search(lines[i])]
    if len(hits) <= nth:
        return None
    return hits[nth]


def weave(repo, dst, variant="A", features=(), quiet=False):
    C = load_contracts()
    if os.path.exists(dst):
        shutil.rmtree(dst)
    os.makedirs(dst)
    for f in ("Cargo.toml", "Cargo.lock"):
        shutil.copy(os.path.join(repo, f), os.path.join(dst, f))
    shutil.copytree(os.path.join(repo, "src"), os.path.join(dst, "src"))
    # benches/examples are declared in Cargo.toml: keep cargo happy without building them
    for d in ("benches", "examples"):
        if os.path.isdir(os.path.join(repo, d)):
            shutil.copytree(os.path.join(repo, d), os.path.join(dst, d))
    os.makedirs(os.path.join(dst, ".cargo"), exist_ok=True)
    with open(os.path.join(dst, ".cargo", "config.toml"), "w") as f:
        f.write("[net]\noffline = true\n")
    shutil.copytree(os.path.join(VERIF, "spec"), os.path.join(dst, "src", "__vspec"))
    shutil.copytree(os.path.join(VERIF, "harness"), os.path.join(dst, "src", "__vh"))
    tables = os.path.join(VERIF, "oracle", "tables")
    if os.path.isdir(tables):
        shutil.copytree(tables, os.path.join(dst, "src", "__vtables"))

    report = {"variant": variant, "contracts_woven": [], "anchor_lost": [], "modules": [], "files_touched": []}
    originals = {}

    def touch(rel):
        p = os.path.join(dst, rel)
        if rel not in originals:
            with open(p) as f:
                originals[rel] = f.read()
        return p

    # (1) contract attributes
    by_file = {}
    for c in C.CONTRACTS:
        if variant == "B" and c.get("stubbed_in_b"):
            continue
        if c.get("variant_only") and c["variant_only"] != variant:
            continue
        by_file.setdefault(c["file"], []).append(c)
    for rel, cs in by_file.items():
        p = os.path.join(dst, rel)
        if not os.path.exists(p):
            for c in cs:
                report["anchor_lost"].append(c["fn"])
            continue
        touch(rel)
        with open(p) as f:
            lines = f.read().split("\n")
        inserts = []
        for c in cs:
            i = find_anchor(lines, c["anchor"], c.get("nth", 0), c.get("after"))
            if i is None:
                report["anchor_lost"].append(c["fn"])
                continue
            indent = re.match(r"\s*", lines[i]).group(0)
            attrs = []
            for r in c.get("requires", []):
                attrs.append(f"{indent}#[cfg_attr(kani, kani::requires({r}))]")
            for e in c.get("ensures", []):
                attrs.append(f"{indent}#[cfg_attr(kani, kani::ensures({e}))]")
            # attributes go above any existing attribute lines (#[inline] etc.) of the fn
            j = i
            while j > 0 and lines[j - 1].strip().startswith("#["):
                j -= 1
            inserts.append((j, attrs))
            report["contracts_woven"].append({"fn": c["fn"], "file": rel, "line": i + 1})
        for j, attrs in sorted(inserts, key=lambda t: -t[0]):
            lines[j:j] = attrs
        with open(p, "w") as f:
            f.write("\n".join(lines))

    # (2) harness modules + (3) spec
    for rel, hfile in C.MODULES:
        # a_*.rs only exist in variant A, b_*.rs only in variant B (hand-written stubs vs. contract attributes)
        # a_* : variants A and C;  b_* : variant B only;  c_* : variant C only (A + contracts marked variant_only="C")
        if (variant in ("A", "C") and re.match(r"(g_)?b_", hfile)) or (variant == "B" and re.match(r"(g_)?[ac]_", hfile)) \
                or (variant != "C" and re.match(r"(g_)?c_", hfile)):
            continue
        p = os.path.join(dst, rel)
        if not os.path.exists(p):
            report["anchor_lost"].append("module:" + rel)
            continue
        touch(rel)
        habs = os.path.join(dst, "src", "__vh", hfile)
        modname = "__vh_" + re.sub(r"\W", "_", hfile[:-3])
        with open(p, "a") as f:
            extra = getattr(C, "MODULE_CFG", {}).get(hfile)
            cfg = f"all(kani, {extra})" if extra else "kani"
            f.write(f'\n#[cfg({cfg})]\n#[path = "{habs}"]\nmod {modname};\n')
        report["modules"].append({"file": rel, "harness": hfile})
    p = touch("src/lib.rs")
    with open(p, "a") as f:
        f.write(f'\n#[cfg(kani)]\n#[path = "{os.path.join(dst, "src", "__vspec", "mod.rs")}"]\npub(crate) mod __vspec;\n')
    if os.path.isdir(os.path.join(dst, "src", "__vtables")):
        with open(p, "a") as f:
            f.write(f'\n#[cfg(kani)]\n#[path = "{os.path.join(dst, "src", "__vtables", "mod.rs")}"]\npub(crate) mod __vtables;\n')
    # crate-level feature gates some harnesses need go to the top of lib.rs
    with open(p) as f:
        s = f.read()
    s = "#![cfg_attr(kani, recursion_limit = \"1024\")]\n#![cfg_attr(kani, allow(unused_imports, dead_code, unused_variables, unused_mut, non_snake_case))]\n" + s
    with open(p, "w") as f:
        f.write(s)

    # diff
    diff = []
    for rel, old in sorted(originals.items()):
        with open(os.path.join(dst, rel)) as f:
            new = f.read()
        d = list(difflib.unified_diff(old.split("\n"), new.split("\n"), "repo/" + rel, "woven/" + rel, lineterm="", n=0))
        removed = [l for l in d if l.startswith("-") and not l.startswith("---")]
        if removed:
            raise SystemExit(f"weave: internal error, woven copy removes lines from {rel}")
        diff += d
        report["files_touched"].append(rel)
    with open(os.path.join(dst, "weave.diff"), "w") as f:
        f.write("\n".join(diff) + "\n")
    with open(os.path.join(dst, "weave.json"), "w") as f:
        json.dump(report, f, indent=1)
    if not quiet:
        print(f"weave[{variant}]: {len(report['contracts_woven'])} contracts, {len(report['modules'])} harness modules, "
              f"{len(report['anchor_lost'])} anchors lost -> {dst}")
    return report


if __name__ == "__main__":
    repo = sys.argv[1] if len(sys.argv) > 1 else "/repo"
    dst = sys.argv[2] if len(sys.argv) > 2 else "/var/tmp/vsp-weave"
    variant = sys.argv[3] if len(sys.argv) > 3 else "A"
    weave(repo, dst, variant)
