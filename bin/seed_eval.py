#!/usr/bin/env python3
"""seed_eval.py <worktree> <prop> <A|B> [extra check args]: confirm a seeded change (compiles, existing tests pass,
demo fails with it and passes without), run the property's check against the patched worktree
(VERIF_REPO=<worktree>, /repo itself is not touched), and store everything under /verif/seeded/<prop>-<X>/."""
import json, os, re, shutil, subprocess, sys, time
wt, prop, x = sys.argv[1:4]
extra = sys.argv[4:]
out = f"/verif/seeded/{os.path.basename(wt.rstrip('/'))}-{x}"
os.makedirs(out, exist_ok=True)
def sh(cmd, cwd=wt, timeout=3600, env=None):
    p = subprocess.run(cmd, shell=True, cwd=cwd, stdout=subprocess.PIPE, stderr=subprocess.STDOUT, text=True, timeout=timeout, env=env)
    return p.returncode, p.stdout
patch = f"{wt}/out/patch{x}.diff"
demo = f"{wt}/out/demo_{x}.rs"
meta = {"property": prop, "seed": x, "commands": []}
sh("git checkout -- src")
rc, o = sh(f"git apply {patch}")
assert rc == 0, o
os.makedirs(f"{wt}/tests", exist_ok=True)
shutil.copy(demo, f"{wt}/tests/demo_{x}.rs")
feat = " --features rand" if prop == "C19" else ""
rc, o = sh("cargo test --offline -j 4 --lib 2>&1 | tail -15")
m = re.search(r"test result: (\w+)\. (\d+) passed; (\d+) failed", o)
failed = re.findall(r"^test (\S+) \.\.\. FAILED", o, re.M)
meta["suite_with_patch"] = {"summary": m.group(0) if m else o[-300:], "failed": failed}
suite_ok = bool(m) and (m.group(1) == "ok" or set(failed) <= {"p32e2::math::mul_add::test_mul_add"})
rc, o = sh(f"cargo test --offline -j 4{feat} --test demo_{x} 2>&1 | tail -5")
m2 = re.search(r"test result: (\w+)\. (\d+) passed; (\d+) failed", o)
meta["demo_with_patch"] = m2.group(0) if m2 else o[-300:]
demo_fails = bool(m2) and m2.group(1) == "FAILED"
# the check, against the patched worktree
env = dict(os.environ, VERIF_REPO=wt, VERIF_TAG=f"-seed-{os.path.basename(wt.rstrip('/'))}{x}")
t0 = time.time()
import shlex
rc, o = sh("bin/check %s --no-evidence %s" % (prop, " ".join(shlex.quote(e) for e in extra)), cwd="/verif", env=env, timeout=6 * 3600)
meta["check"] = {"cmd": f"VERIF_REPO={wt} bin/check {prop} --no-evidence {' '.join(extra)}", "exit": rc, "wall_s": round(time.time() - t0),
                 "violation_lines": [l for l in o.split("\n") if l.startswith("VIOLATION")],
                 "undecided": [l for l in o.split("\n") if "UNDECIDED" in l]}
sh("git checkout -- src")
rc2, o = sh(f"cargo test --offline -j 4{feat} --test demo_{x} 2>&1 | tail -5")
m3 = re.search(r"test result: (\w+)\. (\d+) passed; (\d+) failed", o)
meta["demo_pristine"] = m3.group(0) if m3 else o[-300:]
demo_passes = bool(m3) and m3.group(1) == "ok"
meta["confirmed"] = suite_ok and demo_fails and demo_passes
meta["detected"] = meta["check"]["exit"] == 1
notes = open(f"{wt}/out/notes.md").read() if os.path.exists(f"{wt}/out/notes.md") else ""
meta["needs_to_manifest"] = "see notes.md (written by the independent sub-agent that produced the change)"
shutil.copy(patch, f"{out}/patch.diff")
shutil.copy(demo, f"{out}/demo.rs")
with open(f"{out}/notes.md", "w") as f:
    f.write(notes)
with open(f"{out}/meta.json", "w") as f:
    json.dump(meta, f, indent=1)
print(json.dumps(meta, indent=1))
