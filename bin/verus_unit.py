#!/usr/bin/env python3
"""verus_unit.py: assemble and check one Verus unit from /verif/lemmas/*.rs.
Functions named in `extract=<file>:<fn>,<fn>` are cut mechanically out of /repo's current source (from the
line starting with `const fn <name>(`/`fn <name>(` to the first closing brace at column 0), the
`//@@CONTRACT <fn>` clauses are inserted after the signature (whose return type gets the name `r`) and the
`//@@GHOST <fn>` line after the opening brace.  Nothing of the function text is dropped or rewritten.
Returns (ok, n_verified, n_errors, seconds, output, assembled_path)."""
import json
import os
import re
import subprocess
import sys
import time


def extract_fn(src, name):
    lines = src.split("\n")
    for i, l in enumerate(lines):
        if re.match(rf"^(pub(\([a-z]+\))? )?(const )?fn {name}\(", l):
            for j in range(i, len(lines)):
                if lines[j].startswith("}"):
                    return lines[i:j + 1]
    return None


def assemble(unit_path, repo, out_path):
    with open(unit_path) as f:
        unit = f.read()
    m = re.search(r"// @v (.*)", unit)
    meta = dict(kv.split("=", 1) for kv in m.group(1).split())
    ex = meta.get("extract")
    pieces = []
    lost = []
    if ex:
        rel, fns = ex.split(":")
        with open(os.path.join(repo, rel)) as f:
            src = f.read()
        for fn in fns.split(","):
            body = extract_fn(src, fn)
            if body is None:
                lost.append(fn)
                continue
            cm = re.search(rf"//@@CONTRACT {fn}\n((?://    .*\n)+)", unit)
            gm = re.search(rf"//@@GHOST {fn}\n((?://    .*\n)+)", unit)
            contract = "".join(l[2:] + "\n" for l in cm.group(1).split("\n") if l) if cm else ""
            ghost = "".join(l[2:] + "\n" for l in gm.group(1).split("\n") if l) if gm else ""
            sig = body[0]
            assert sig.rstrip().endswith("{"), sig
            sig = sig.rstrip()[:-1].rstrip()
            sig = re.sub(r"-> (.*)$", r"-> (r: \1)", sig)
            pieces.append(f"// ---- extracted verbatim from {rel} ({fn}); contract and ghost line inserted\n{sig}\n{contract}{{\n{ghost}" + "\n".join(body[1:]) + "\n")
    text = unit.replace("//@@EXTRACTED", "\n".join(pieces))
    with open(out_path, "w") as f:
        f.write(text)
    return meta, lost


def run(unit_path, repo="/repo", workdir="/var/tmp/vsp"):
    os.makedirs(workdir, exist_ok=True)
    out_path = os.path.join(workdir, f"verus-{os.getpid()}-{os.path.basename(unit_path)}")
    meta, lost = assemble(unit_path, repo, out_path)
    t0 = time.time()
    try:
        p = subprocess.run(["verus", out_path, "--multiple-errors", "20"], stdout=subprocess.PIPE, stderr=subprocess.STDOUT, text=True,
                           timeout=int(meta.get("t", "300")), cwd=workdir)
        out = p.stdout
    except subprocess.TimeoutExpired as e:
        out = "TIMEOUT"
    dt = time.time() - t0
    m = re.search(r"verification results:: (\d+) verified, (\d+) errors", out)
    nv, ne = (int(m.group(1)), int(m.group(2))) if m else (0, -1)
    return {"meta": meta, "lost": lost, "verified": nv, "errors": ne, "time_s": dt, "output": out, "assembled": out_path,
            "ok": bool(m) and ne == 0 and nv > 0 and not lost}


if __name__ == "__main__":
    r = run(sys.argv[1], sys.argv[2] if len(sys.argv) > 2 else "/repo")
    print(r["output"][-3000:])
    print({k: v for k, v in r.items() if k not in ("output",)})
