//! vnative: exhaustive / bounded NATIVE evaluation of contracts on the real softposit code (public API),
//! for obligations the verifier cannot close (labelled enumeration [E] or bounded [B], never "proved").
//! Built in release mode WITH overflow checks, so an arithmetic overflow in the crate panics here too.
//! usage: vnative <obligation> [seed]      prints one JSON line.
#![allow(dead_code, unused_imports)]
#[path = "../../spec/mod.rs"]
mod __vspec;
#[path = "../../oracle/tables/mod.rs"]
mod tables;
use __vspec::*;
use softposit::*;
use std::sync::atomic::{AtomicU64, Ordering as AO};
use std::sync::{Arc, Mutex};

const THREADS: u64 = 16;

thread_local! { static WITNESS: std::cell::Cell<u64> = std::cell::Cell::new(u64::MAX); }
/// record the concrete input about to be fed to the crate (reported instead of the sweep index when it fails or panics)
fn witness(x: u64) {
    WITNESS.with(|w| w.set(x));
}

/// run `f` on every value of 0..n split over threads; returns (evaluations, nontrivial, failures).
/// A panic inside `f` (overflow check, index, unwrap in the crate) counts as a failure of that input.
fn sweep<F: Fn(u64) -> (bool, bool) + Send + Sync + 'static>(n: u64, f: F) -> (u64, u64, Vec<u64>) {
    std::panic::set_hook(Box::new(|_| {}));
    let f = Arc::new(f);
    let fails = Arc::new(Mutex::new(Vec::new()));
    let nontrivial = Arc::new(AtomicU64::new(0));
    let mut hs = Vec::new();
    for t in 0..THREADS {
        let (f, fails, nontrivial) = (f.clone(), fails.clone(), nontrivial.clone());
        hs.push(std::thread::spawn(move || {
            let (lo, hi) = (n * t / THREADS, n * (t + 1) / THREADS);
            let mut nt = 0u64;
            for x in lo..hi {
                WITNESS.with(|w| w.set(u64::MAX));
                let r = std::panic::catch_unwind(std::panic::AssertUnwindSafe(|| f(x)));
                let (ok, interesting) = r.unwrap_or((false, true));
                nt += interesting as u64;
                if !ok {
                    let wv = WITNESS.with(|w| w.get());
                    let mut g = fails.lock().unwrap();
                    if g.len() < 16 {
                        g.push(if wv != u64::MAX { wv } else { x });
                    }
                }
            }
            nontrivial.fetch_add(nt, AO::Relaxed);
        }));
    }
    for h in hs {
        let _ = h.join();
    }
    let mut v = fails.lock().unwrap().clone();
    v.sort();
    (n, nontrivial.load(AO::Relaxed), v)
}

fn report(name: &str, mode: &str, r: (u64, u64, Vec<u64>), samples: &[String]) {
    let fails: Vec<String> = r.2.iter().map(|x| format!("\"{:#x}\"", x)).collect();
    println!(
        "{{\"name\":\"{}\",\"mode\":\"{}\",\"evaluations\":{},\"nontrivial\":{},\"ok\":{},\"failures\":[{}],\"samples\":[{}]}}",
        name, mode, r.0, r.1, r.2.is_empty(), fails.join(","), samples.iter().map(|s| format!("\"{}\"", s)).collect::<Vec<_>>().join(",")
    );
}

include!("obligations.rs");

fn main() {
    let a: Vec<String> = std::env::args().collect();
    let seed: u64 = a.get(2).and_then(|s| s.parse().ok()).unwrap_or(0);
    if !run(&a[1], seed) {
        eprintln!("unknown obligation {}", a[1]);
        std::process::exit(3);
    }
}
