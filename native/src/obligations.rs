// Native obligations.  Metadata lines `// @n ...` are read by bin/check (same keys as `// @h`).

// @n name=c06_p32_sqrt_exhaustive props=C06 fn=P32E2::sqrt tier=quick t=900 mode=E
fn c06_p32_sqrt_exhaustive() {
    let r = sweep(1u64 << 32, |x| {
        let res = P32E2::from_bits(x as u32).sqrt().to_bits();
        (sqrt_ok(x, res as u64, 32, 2), res != 0 && res != 0x8000_0000)
    });
    let s = |x: u32| format!("sqrt({:#x}) = {:#x}", x, P32E2::from_bits(x).sqrt().to_bits());
    report("c06_p32_sqrt_exhaustive", "E", r, &[s(0x4000_0000), s(0x7fff_ffff), s(0x0000_0001), s(0x5000_0000)]);
}

// @n name=c11_p16_exp_exhaustive props=C11 fn=P16E1::exp tier=quick t=300 mode=E
fn c11_p16_exp_exhaustive() {
    let r = sweep(1u64 << 16, |x| {
        let res = P16E1::from_bits(x as u16).exp().to_bits();
        (res == tables::p16_exp::T_P16_EXP[x as usize], res != 0 && res != 0x8000)
    });
    let s = |x: u16| format!("exp({:#x}) = {:#x} (table {:#x})", x, P16E1::from_bits(x).exp().to_bits(), tables::p16_exp::T_P16_EXP[x as usize]);
    report("c11_p16_exp_exhaustive", "E", r, &[s(0x4000), s(0x7fff), s(0x0001), s(0xc000)]);
}

// @n name=c11_p16_exp2_exhaustive props=C11 fn=P16E1::exp2 tier=quick t=300 mode=E
fn c11_p16_exp2_exhaustive() {
    let r = sweep(1u64 << 16, |x| {
        let res = P16E1::from_bits(x as u16).exp2().to_bits();
        (res == tables::p16_exp2::T_P16_EXP2[x as usize], res != 0 && res != 0x8000)
    });
    let s = |x: u16| format!("exp2({:#x}) = {:#x} (table {:#x})", x, P16E1::from_bits(x).exp2().to_bits(), tables::p16_exp2::T_P16_EXP2[x as usize]);
    report("c11_p16_exp2_exhaustive", "E", r, &[s(0x4000), s(0x7fff), s(0x0001), s(0xc000)]);
}

// @n name=c11_p16_ln_exhaustive props=C11 fn=P16E1::ln tier=quick t=300 mode=E
fn c11_p16_ln_exhaustive() {
    let r = sweep(1u64 << 16, |x| {
        let res = P16E1::from_bits(x as u16).ln().to_bits();
        (res == tables::p16_ln::T_P16_LN[x as usize], res != 0 && res != 0x8000)
    });
    let s = |x: u16| format!("ln({:#x}) = {:#x} (table {:#x})", x, P16E1::from_bits(x).ln().to_bits(), tables::p16_ln::T_P16_LN[x as usize]);
    report("c11_p16_ln_exhaustive", "E", r, &[s(0x4000), s(0x7fff), s(0x0001), s(0xc000)]);
}

// @n name=c11_p16_log2_exhaustive props=C11 fn=P16E1::log2 tier=quick t=300 mode=E
fn c11_p16_log2_exhaustive() {
    let r = sweep(1u64 << 16, |x| {
        let res = P16E1::from_bits(x as u16).log2().to_bits();
        (res == tables::p16_log2::T_P16_LOG2[x as usize], res != 0 && res != 0x8000)
    });
    let s = |x: u16| format!("log2({:#x}) = {:#x} (table {:#x})", x, P16E1::from_bits(x).log2().to_bits(), tables::p16_log2::T_P16_LOG2[x as usize]);
    report("c11_p16_log2_exhaustive", "E", r, &[s(0x4000), s(0x7fff), s(0x0001), s(0xc000)]);
}

// @n name=c11_p16_sin_pi_exhaustive props=C11 fn=P16E1::sin_pi tier=quick t=300 mode=E
fn c11_p16_sin_pi_exhaustive() {
    let r = sweep(1u64 << 16, |x| {
        let res = P16E1::from_bits(x as u16).sin_pi().to_bits();
        (res == tables::p16_sin_pi::T_P16_SIN_PI[x as usize], res != 0 && res != 0x8000)
    });
    let s = |x: u16| format!("sin_pi({:#x}) = {:#x} (table {:#x})", x, P16E1::from_bits(x).sin_pi().to_bits(), tables::p16_sin_pi::T_P16_SIN_PI[x as usize]);
    report("c11_p16_sin_pi_exhaustive", "E", r, &[s(0x4000), s(0x7fff), s(0x0001), s(0xc000)]);
}

// @n name=c11_p16_cos_pi_exhaustive props=C11 fn=P16E1::cos_pi tier=quick t=300 mode=E
fn c11_p16_cos_pi_exhaustive() {
    let r = sweep(1u64 << 16, |x| {
        let res = P16E1::from_bits(x as u16).cos_pi().to_bits();
        (res == tables::p16_cos_pi::T_P16_COS_PI[x as usize], res != 0 && res != 0x8000)
    });
    let s = |x: u16| format!("cos_pi({:#x}) = {:#x} (table {:#x})", x, P16E1::from_bits(x).cos_pi().to_bits(), tables::p16_cos_pi::T_P16_COS_PI[x as usize]);
    report("c11_p16_cos_pi_exhaustive", "E", r, &[s(0x4000), s(0x7fff), s(0x0001), s(0xc000)]);
}

// @n name=c11_p16_tan_pi_exhaustive props=C11 fn=P16E1::tan_pi tier=quick t=300 mode=E
fn c11_p16_tan_pi_exhaustive() {
    let r = sweep(1u64 << 16, |x| {
        let res = P16E1::from_bits(x as u16).tan_pi().to_bits();
        (res == tables::p16_tan_pi::T_P16_TAN_PI[x as usize], res != 0 && res != 0x8000)
    });
    let s = |x: u16| format!("tan_pi({:#x}) = {:#x} (table {:#x})", x, P16E1::from_bits(x).tan_pi().to_bits(), tables::p16_tan_pi::T_P16_TAN_PI[x as usize]);
    report("c11_p16_tan_pi_exhaustive", "E", r, &[s(0x4000), s(0x7fff), s(0x0001), s(0xc000)]);
}

// @n name=c11_p16_asin_pi_exhaustive props=C11 fn=P16E1::asin_pi tier=quick t=300 mode=E
fn c11_p16_asin_pi_exhaustive() {
    let r = sweep(1u64 << 16, |x| {
        let res = P16E1::from_bits(x as u16).asin_pi().to_bits();
        (res == tables::p16_asin_pi::T_P16_ASIN_PI[x as usize], res != 0 && res != 0x8000)
    });
    let s = |x: u16| format!("asin_pi({:#x}) = {:#x} (table {:#x})", x, P16E1::from_bits(x).asin_pi().to_bits(), tables::p16_asin_pi::T_P16_ASIN_PI[x as usize]);
    report("c11_p16_asin_pi_exhaustive", "E", r, &[s(0x4000), s(0x7fff), s(0x0001), s(0xc000)]);
}

// @n name=c11_p16_acos_pi_exhaustive props=C11 fn=P16E1::acos_pi tier=quick t=300 mode=E
fn c11_p16_acos_pi_exhaustive() {
    let r = sweep(1u64 << 16, |x| {
        let res = P16E1::from_bits(x as u16).acos_pi().to_bits();
        (res == tables::p16_acos_pi::T_P16_ACOS_PI[x as usize], res != 0 && res != 0x8000)
    });
    let s = |x: u16| format!("acos_pi({:#x}) = {:#x} (table {:#x})", x, P16E1::from_bits(x).acos_pi().to_bits(), tables::p16_acos_pi::T_P16_ACOS_PI[x as usize]);
    report("c11_p16_acos_pi_exhaustive", "E", r, &[s(0x4000), s(0x7fff), s(0x0001), s(0xc000)]);
}

// @n name=c11_p16_atan_pi_exhaustive props=C11 fn=P16E1::atan_pi tier=quick t=300 mode=E
fn c11_p16_atan_pi_exhaustive() {
    let r = sweep(1u64 << 16, |x| {
        let res = P16E1::from_bits(x as u16).atan_pi().to_bits();
        (res == tables::p16_atan_pi::T_P16_ATAN_PI[x as usize], res != 0 && res != 0x8000)
    });
    let s = |x: u16| format!("atan_pi({:#x}) = {:#x} (table {:#x})", x, P16E1::from_bits(x).atan_pi().to_bits(), tables::p16_atan_pi::T_P16_ATAN_PI[x as usize]);
    report("c11_p16_atan_pi_exhaustive", "E", r, &[s(0x4000), s(0x7fff), s(0x0001), s(0xc000)]);
}

// @n name=c11_p8_exp_exhaustive props=C11 fn=P8E0::exp tier=quick t=300 mode=E
fn c11_p8_exp_exhaustive() {
    let r = sweep(1u64 << 8, |x| {
        let res = P8E0::from_bits(x as u8).exp().to_bits();
        (res == tables::p8_exp::T_P8_EXP[x as usize], res != 0 && res != 0x80)
    });
    let s = |x: u8| format!("exp({:#x}) = {:#x} (table {:#x})", x, P8E0::from_bits(x).exp().to_bits(), tables::p8_exp::T_P8_EXP[x as usize]);
    report("c11_p8_exp_exhaustive", "E", r, &[s(0x40), s(0x7f), s(0x01), s(0xc0)]);
}

// @n name=c11_p8_ln_exhaustive props=C11 fn=P8E0::ln tier=quick t=300 mode=E
fn c11_p8_ln_exhaustive() {
    let r = sweep(1u64 << 8, |x| {
        let res = P8E0::from_bits(x as u8).ln().to_bits();
        (res == tables::p8_ln::T_P8_LN[x as usize], res != 0 && res != 0x80)
    });
    let s = |x: u8| format!("ln({:#x}) = {:#x} (table {:#x})", x, P8E0::from_bits(x).ln().to_bits(), tables::p8_ln::T_P8_LN[x as usize]);
    report("c11_p8_ln_exhaustive", "E", r, &[s(0x40), s(0x7f), s(0x01), s(0xc0)]);
}

// @n name=c03_text_roundtrip_bounded props=C03 fn=Display,FromStr tier=quick t=600 mode=B
fn c03_text_roundtrip_bounded(seed: u64) {
    // wiring of Display (= f64 Display) and FromStr (= f64 parse + From<f64>) through the real std code:
    // every P8E0 and P16E1 pattern, and 2^20 structured P32E2 patterns (all regime lengths x fraction fills, + seeded fill)
    let r8 = sweep(1 << 8, |x| {
        let p = P8E0::from_bits(x as u8);
        (p.to_string().parse::<P8E0>().map(|q| q == p).unwrap_or(false), true)
    });
    let r16 = sweep(1 << 16, |x| {
        let p = P16E1::from_bits(x as u16);
        (p.to_string().parse::<P16E1>().map(|q| q == p).unwrap_or(false), true)
    });
    let r32 = sweep(1 << 20, move |i| {
        // structured pattern: top 5 bits of i choose a regime length, the rest fills the tail; mixed with the seed
        let reg = ((i >> 15) & 31).min(29);
        let tail = (i & 0x7fff).wrapping_mul(0x9E37_79B9_7F4A_7C15 ^ seed.wrapping_mul(0x2545_F491_4F6C_DD1D)) as u32;
        let body = if i & 1 == 0 { (0x7fff_ffffu32 >> reg) ^ (tail >> (reg + 1)) } else { (0x4000_0000u32 >> reg) | (tail >> (reg + 2)) };
        let bits = if i & 2 == 0 { body } else { body.wrapping_neg() };
        // the special patterns first (NaR, zero, maxpos, minpos and their negatives/neighbours), then the structured ones
        const SPECIAL: [u32; 10] = [0x8000_0000, 0, 0x7fff_ffff, 1, 0x8000_0001, 0xffff_ffff, 0x7fff_fffe, 2, 0x4000_0000, 0xc000_0000];
        let bits = if (i as usize) < SPECIAL.len() { SPECIAL[i as usize] } else { bits };
        let p = P32E2::from_bits(bits);
        (p.to_string().parse::<P32E2>().map(|q| q == p).unwrap_or(false), true)
    });
    let mut fails = r8.2.clone();
    fails.extend(r16.2.iter().map(|x| x | (1 << 32)));
    fails.extend(r32.2.iter().map(|x| x | (2 << 32)));
    let s = |p: P32E2| format!("{:#x} -> '{}' -> {:?}", p.to_bits(), p.to_string(), p.to_string().parse::<P32E2>().map(|q| q.to_bits()).ok());
    report("c03_text_roundtrip_bounded", "B", (r8.0 + r16.0 + r32.0, r8.1 + r16.1 + r32.1, fails),
           &[s(P32E2::from_bits(0x4000_0001)), s(P32E2::NAR), s(P32E2::from_bits(0x8000_0001)), s(P32E2::from_bits(0x0000_0003))]);
}

// ---- C13, widths the verifier does not reach (N >= 13): BOUNDED native evaluation of the same contracts on
// structured pseudo-random operands (seeded).  Labelled bounded; never counted as proved.
fn mix(mut z: u64) -> u64 {
    z = z.wrapping_add(0x9E37_79B9_7F4A_7C15);
    z = (z ^ (z >> 30)).wrapping_mul(0xBF58_476D_1CE4_E5B9);
    z = (z ^ (z >> 27)).wrapping_mul(0x94D0_49BB_1331_11EB);
    z ^ (z >> 31)
}
/// an N-bit pattern (left-aligned in u32) with a structured regime: long runs, all-ones / all-zero tails, ties
fn structured(n: u32, r: u64) -> u32 {
    let reg = (r % (n as u64)) as u32;              // regime run length 0..n-1
    let tail = (r >> 8) as u32;
    let kind = (r >> 40) & 7;
    let body: u32 = match kind {
        0 => 0x7fff_ffffu32 >> reg,                   // 0..01..1
        1 => (0x7fff_ffffu32 >> reg) ^ (tail >> (reg + 1).min(31)),
        2 => 0x4000_0000u32 >> reg,                   // 0..010..0
        3 => (0x4000_0000u32 >> reg) | (tail >> (reg + 2).min(31)),
        4 => !(0x7fff_ffffu32 >> reg) & 0x7fff_ffff,  // 1..10..0
        5 => (!(0x7fff_ffffu32 >> reg) & 0x7fff_ffff) | (tail >> (reg + 1).min(31)),
        _ => tail & 0x7fff_ffff,
    };
    let v = if (r >> 44) & 1 == 1 { body.wrapping_neg() } else { body };
    if n == 32 { v } else { v & ((!0u32) << (32 - n)) }
}
macro_rules! c13_wide {
    ($fname:ident, $PX:ident, $es:expr, $sqrt:expr, [$($n:literal),*]) => {
        fn $fname(seed: u64) -> (u64, u64, Vec<u64>) {
            let mut total = (0u64, 0u64, Vec::new());
            $(
                let r = sweep(1 << 18, move |i| {
                    let n: u32 = $n;
                    let (a, b, c) = (structured(n, mix(i ^ seed ^ 0x11)), structured(n, mix(i.wrapping_mul(3) ^ seed ^ 0x22)), structured(n, mix(i.wrapping_mul(7) ^ seed ^ 0x33)));
                    let (pa, pb, pc) = ($PX::<$n>::from_bits(a), $PX::<$n>::from_bits(b), $PX::<$n>::from_bits(c));
                    let (xa, xb, xc) = (px(a, n), px(b, n), px(c, n));
                    let mut ok = true;
                    let chk = |r: u32, good: &dyn Fn(u64) -> bool| px_closed(r, n) && good(px(r, n));
                    ok &= chk((pa + pb).to_bits(), &|r| add_ok(xa, xb, r, n, $es));
                    ok &= chk((pa - pb).to_bits(), &|r| sub_ok(xa, xb, r, n, $es));
                    ok &= chk((pa * pb).to_bits(), &|r| mul_ok(xa, xb, r, n, $es));
                    ok &= chk((pa / pb).to_bits(), &|r| div_ok(xa, xb, r, n, $es));
                    ok &= chk(pa.mul_add(pb, pc).to_bits(), &|r| fma_ok::<5, 320>(xa, xb, xc, r, n, $es, FmaOp::Add));
                    ok &= chk(pa.mul_sub(pb, pc).to_bits(), &|r| fma_ok::<5, 320>(xa, xb, xc, r, n, $es, FmaOp::SubC));
                    ok &= chk(pc.sub_product(pa, pb).to_bits(), &|r| fma_ok::<5, 320>(xa, xb, xc, r, n, $es, FmaOp::SubProd));
                    ok &= chk($PX::<$n>::round(pa).to_bits(), &|r| intfn_ok(xa, r, n, $es, IMode::Round));
                    if $sqrt { ok &= chk(c13_sqrt(a, n), &|r| sqrt_ok(xa, r, n, $es)); }
                    (ok, a != 0 && b != 0)
                });
                total.0 += r.0 * 8; total.1 += r.1;
                total.2.extend(r.2.iter().map(|x| x | (($n as u64) << 32)));
            )*
            total
        }
    };
}
fn c13_sqrt(a: u32, n: u32) -> u32 {
    macro_rules! d { ($($k:literal),*) => { match n { $($k => PxE2::<$k>::from_bits(a).sqrt().to_bits(),)* _ => 0 } } }
    d!(13, 14, 15, 16, 17, 18, 19, 20, 21, 22, 23, 24, 25, 26, 27, 28, 29, 30, 31, 32)
}
c13_wide!(c13_wide_e2, PxE2, 2, true, [13, 14, 15, 16, 17, 18, 19, 20, 21, 22, 23, 24, 25, 26, 27, 28, 29, 30, 31, 32]);
c13_wide!(c13_wide_e1, PxE1, 1, false, [13, 14, 15, 16, 17, 18, 19, 20, 21, 22, 23, 24, 25, 26, 27, 28, 29, 30, 31, 32]);

// @n name=c13_wide_e2_bounded props=C13 fn=PxE2<13..=32>::{add,sub,mul,div,mul_add,mul_sub,sub_product,sqrt,round} tier=quick t=1200 mode=B
fn c13_wide_e2_bounded(seed: u64) {
    let r = c13_wide_e2(seed);
    report("c13_wide_e2_bounded", "B", r, &["failing input index | N << 32; operands are structured(N, mix(i ^ seed ..))".to_string()]);
}
// @n name=c13_wide_e1_bounded props=C13 fn=PxE1<13..=32>::{add,sub,mul,div,mul_add,mul_sub,sub_product,round} tier=quick t=1200 mode=B
fn c13_wide_e1_bounded(seed: u64) {
    let r = c13_wide_e1(seed);
    report("c13_wide_e1_bounded", "B", r, &["failing input index | N << 32; operands are structured(N, mix(i ^ seed ..))".to_string()]);
}

// ---- C14: float -> generic posit (the code loops on f64 values: out of the verifier's reach) -- BOUNDED native evaluation
fn structured_f64(r: u64) -> u64 {
    // exponent swept over [-160, 160] around the bias, fraction: zero / all ones / single bits / pseudo-random; both signs
    let e = 1023i64 + ((r % 321) as i64 - 160);
    let kind = (r >> 12) & 7;
    let t = mix(r);
    let frac: u64 = match kind {
        0 => 0,
        1 => (1u64 << 52) - 1,
        2 => 1u64 << (t % 52),
        3 => ((1u64 << 52) - 1) ^ (1u64 << (t % 52)),
        4 => (t & ((1u64 << 52) - 1)) & !((1u64 << (t % 40)) - 1),
        _ => t & ((1u64 << 52) - 1),
    };
    let special = (r >> 20) & 0x3ff;
    if special == 0 { return 0; }
    if special == 1 { return 0x7ff0_0000_0000_0000 | (t & 1) << 63; }
    if special == 2 { return 0x7ff8_0000_0000_0001; }
    if special == 3 { return (t & 0xf_ffff_ffff_ffff) | ((t >> 60) & 1) << 63; } // subnormal
    ((r >> 16) & 1) << 63 | ((e as u64) << 52) | frac
}
macro_rules! c14_float {
    ($fname:ident, $PX:ident, $es:expr, [$($n:literal),*]) => {
        fn $fname(seed: u64) -> (u64, u64, Vec<u64>) {
            let mut total = (0u64, 0u64, Vec::new());
            $(
                let r = sweep(1 << 18, move |i| {
                    let n: u32 = $n;
                    let fb = structured_f64(mix(i ^ seed) );
                    witness(fb);
                    let f = f64::from_bits(fb);
                    let r64 = $PX::<$n>::from_f64(f).to_bits();
                    let g = f as f32;
                    let r32 = $PX::<$n>::from_f32(g).to_bits();
                    let ok = px_closed(r64, n) && from_f64_ok(fb, px(r64, n), n, $es) && px_closed(r32, n) && from_f32_ok(g.to_bits(), px(r32, n), n, $es);
                    (ok, fb << 1 != 0)
                });
                total.0 += r.0 * 2; total.1 += r.1;
                total.2.extend(r.2.iter().cloned()); // witnesses are the f64 bit patterns themselves
            )*
            total
        }
    };
}
c14_float!(c14_float_e2, PxE2, 2, [2, 3, 4, 5, 8, 12, 16, 20, 24, 28, 31, 32]);
c14_float!(c14_float_e1, PxE1, 1, [2, 3, 4, 5, 8, 12, 16, 20, 24, 28, 31, 32]);
// @n name=c14_from_float_e2_bounded props=C14 fn=PxE2<N>::from_f64,PxE2<N>::from_f32 tier=quick t=1200 mode=B kf=D18
fn c14_from_float_e2_bounded(seed: u64) {
    report("c14_from_float_e2_bounded", "B", c14_float_e2(seed), &["failures list the f64 bit patterns fed to from_f64 (and, narrowed with `as f32`, to from_f32) for some width N of the sweep".to_string()]);
}
// @n name=c14_from_float_e1_bounded props=C14 fn=PxE1<N>::from_f64,PxE1<N>::from_f32 tier=quick t=1200 mode=B kf=D18
fn c14_from_float_e1_bounded(seed: u64) {
    report("c14_from_float_e1_bounded", "B", c14_float_e1(seed), &["failures list the f64 bit patterns fed to from_f64 (and, narrowed with `as f32`, to from_f32) for some width N of the sweep".to_string()]);
}

/// `vnative dump <seed>`: prints vectors computed by the REAL crate (op n es a b c result) for the Python Fraction oracle
/// (oracle/crosscheck.py); the crate's results are proved equal to the Rust spec, so agreement validates spec vs. second oracle
fn dump(seed: u64) {
    for i in 0..1500u64 {
        let r = mix(i ^ seed.wrapping_mul(77));
        let (a, b, c) = (structured(32, r), structured(32, mix(r)), structured(32, mix(r ^ 5)));
        let (pa, pb, pc) = (P32E2::from_bits(a), P32E2::from_bits(b), P32E2::from_bits(c));
        println!("add 32 2 {:#x} {:#x} 0 {:#x}", a, b, pa.add(pb).to_bits());
        println!("sub 32 2 {:#x} {:#x} 0 {:#x}", a, b, pa.sub(pb).to_bits());
        println!("mul 32 2 {:#x} {:#x} 0 {:#x}", a, b, pa.mul(pb).to_bits());
        println!("div 32 2 {:#x} {:#x} 0 {:#x}", a, b, pa.div(pb).to_bits());
        println!("fma 32 2 {:#x} {:#x} {:#x} {:#x}", a, b, c, pa.mul_add(pb, pc).to_bits());
        println!("sqrt 32 2 {:#x} 0 0 {:#x}", a, pa.sqrt().to_bits());
        let (a16, b16, c16) = ((a >> 16) as u16, (b >> 16) as u16, (c >> 16) as u16);
        let (qa, qb, qc) = (P16E1::from_bits(a16), P16E1::from_bits(b16), P16E1::from_bits(c16));
        println!("add 16 1 {:#x} {:#x} 0 {:#x}", a16, b16, qa.add(qb).to_bits());
        println!("mul 16 1 {:#x} {:#x} 0 {:#x}", a16, b16, qa.mul(qb).to_bits());
        println!("div 16 1 {:#x} {:#x} 0 {:#x}", a16, b16, qa.div(qb).to_bits());
        println!("fms 16 1 {:#x} {:#x} {:#x} {:#x}", a16, b16, c16, qa.mul_sub(qb, qc).to_bits());
        println!("fsp 16 1 {:#x} {:#x} {:#x} {:#x}", a16, b16, c16, qc.sub_product(qa, qb).to_bits());
        let (a8, b8) = ((a >> 24) as u8, (b >> 24) as u8);
        println!("mul 8 0 {:#x} {:#x} 0 {:#x}", a8, b8, P8E0::from_bits(a8).mul(P8E0::from_bits(b8)).to_bits());
        println!("from_f64 16 1 {:#x} 0 0 {:#x}", structured_f64(r), P16E1::from_f64(f64::from_bits(structured_f64(r))).to_bits());
        println!("from_f64 32 2 {:#x} 0 0 {:#x}", structured_f64(r), P32E2::from_f64(f64::from_bits(structured_f64(r))).to_bits());
        println!("round 32 2 {:#x} 0 0 {:#x}", a, pa.round().to_bits());
        println!("ceil 16 1 {:#x} 0 0 {:#x}", a16, qa.ceil().to_bits());
    }
}

fn run(name: &str, _seed: u64) -> bool {
    match name {
        "c06_p32_sqrt_exhaustive" => c06_p32_sqrt_exhaustive(),
        "dump" => dump(_seed),
        "c14_from_float_e2_bounded" => c14_from_float_e2_bounded(_seed),
        "c14_from_float_e1_bounded" => c14_from_float_e1_bounded(_seed),
        "c13_wide_e2_bounded" => c13_wide_e2_bounded(_seed),
        "c13_wide_e1_bounded" => c13_wide_e1_bounded(_seed),
        "c03_text_roundtrip_bounded" => c03_text_roundtrip_bounded(_seed),
        "c11_p16_exp_exhaustive" => c11_p16_exp_exhaustive(),
        "c11_p16_exp2_exhaustive" => c11_p16_exp2_exhaustive(),
        "c11_p16_ln_exhaustive" => c11_p16_ln_exhaustive(),
        "c11_p16_log2_exhaustive" => c11_p16_log2_exhaustive(),
        "c11_p16_sin_pi_exhaustive" => c11_p16_sin_pi_exhaustive(),
        "c11_p16_cos_pi_exhaustive" => c11_p16_cos_pi_exhaustive(),
        "c11_p16_tan_pi_exhaustive" => c11_p16_tan_pi_exhaustive(),
        "c11_p16_asin_pi_exhaustive" => c11_p16_asin_pi_exhaustive(),
        "c11_p16_acos_pi_exhaustive" => c11_p16_acos_pi_exhaustive(),
        "c11_p16_atan_pi_exhaustive" => c11_p16_atan_pi_exhaustive(),
        "c11_p8_exp_exhaustive" => c11_p8_exp_exhaustive(),
        "c11_p8_ln_exhaustive" => c11_p8_ln_exhaustive(),
        _ => return false,
    }
    true
}
