//! Tag functions for forwarder obligations (C17): cheap, injective-enough stand-ins for inherent methods.
