//! Operation specs: add, sub, mul, div, fused multiply-add family, sqrt.
use super::value::*;
use core::cmp::Ordering;

/// a*b
pub fn mul_ok(a: u64, b: u64, r: u64, n: u32, es: u32) -> bool {
    let r = r & mask(n);
    match (decode(a, n, es), decode(b, n, es)) {
        (Dec::NaR, _) | (_, Dec::NaR) => r == nar(n),
        (Dec::Zero, _) | (_, Dec::Zero) => r == 0,
        (Dec::Real { neg: na, m: ma, e: ea }, Dec::Real { neg: nb, m: mb, e: eb }) => {
            let p = (ma as u128) * (mb as u128);
            let pe = ea + eb;
            is_rounded(r, n, es, na ^ nb, |m, e| cmp_dy(p, pe, m as u128, e))
        }
    }
}

/// a/b  (a/b ? mid  <=>  a ? mid*b, exact cross multiplication)
pub fn div_ok(a: u64, b: u64, r: u64, n: u32, es: u32) -> bool {
    let r = r & mask(n);
    match (decode(a, n, es), decode(b, n, es)) {
        (Dec::NaR, _) | (_, Dec::NaR) | (_, Dec::Zero) => r == nar(n),
        (Dec::Zero, _) => r == 0,
        (Dec::Real { neg: na, m: ma, e: ea }, Dec::Real { neg: nb, m: mb, e: eb }) => {
            is_rounded(r, n, es, na ^ nb, |m, e| cmp_dy(ma as u128, ea, (m as u128) * (mb as u128), e + eb))
        }
    }
}

/// ordering of (A + sgn*B) relative to M, all positive dyadics with mantissas in [2^32, 2^33);
/// requires A >= B (as reals) and, when `sub`, A > B.  Exact:
///  * scale gap d = eA-eB < 64: S = (mA<<d) +- mB fits u128; compare S*2^eB with M.
///  * d >= 64: B < 2^(eA-31); A != M implies |A-M| > B (lemma_tiny_addend, checked by Verus), so the
///    order is that of A vs M unless A == M, where the sign of +-B decides.
pub fn cmp_sum(ma: u64, ea: i32, mb: u64, eb: i32, sub: bool, mm: u64, em: i32) -> Ordering {
    let d = ea - eb;
    if d < 64 {
        let s = if sub { ((ma as u128) << d) - (mb as u128) } else { ((ma as u128) << d) + (mb as u128) };
        cmp_dy(s, eb, mm as u128, em)
    } else {
        match cmp_dy(ma as u128, ea, mm as u128, em) {
            Ordering::Equal => {
                if sub {
                    Ordering::Less
                } else {
                    Ordering::Greater
                }
            }
            o => o,
        }
    }
}

/// a+b
pub fn add_ok(a: u64, b: u64, r: u64, n: u32, es: u32) -> bool {
    let r = r & mask(n);
    match (decode(a, n, es), decode(b, n, es)) {
        (Dec::NaR, _) | (_, Dec::NaR) => r == nar(n),
        (Dec::Zero, _) => r == (b & mask(n)),
        (_, Dec::Zero) => r == (a & mask(n)),
        (Dec::Real { neg: na, m: ma, e: ea }, Dec::Real { neg: nb, m: mb, e: eb }) => {
            let (big_m, big_e, big_n, sm_m, sm_e) = match cmp_dy(ma as u128, ea, mb as u128, eb) {
                Ordering::Less => (mb, eb, nb, ma, ea),
                Ordering::Equal => {
                    if na != nb {
                        return r == 0;
                    }
                    (ma, ea, na, mb, eb)
                }
                Ordering::Greater => (ma, ea, na, mb, eb),
            };
            let sub = na != nb;
            is_rounded(r, n, es, big_n, |m, e| cmp_sum(big_m, big_e, sm_m, sm_e, sub, m, e))
        }
    }
}

/// a-b  :=  a + (-b); negation of an n-bit posit is two's complement and exact (NaR, 0 fixed)
pub fn sub_ok(a: u64, b: u64, r: u64, n: u32, es: u32) -> bool {
    add_ok(a, neg_bits(b & mask(n), n), r, n, es)
}

// ---------------------------------------------------------------------------------------------
/// unsigned wide fixed point, `L` 128-bit limbs (w[0] least significant), bit `BIAS` is 2^0
#[derive(Clone, Copy, PartialEq, Eq)]
pub struct Fx<const L: usize, const BIAS: i32> {
    pub w: [u128; L],
}

impl<const L: usize, const BIAS: i32> Fx<L, BIAS> {
    pub fn zero() -> Self {
        Fx { w: [0; L] }
    }
    /// m * 2^e exactly (caller guarantees it fits: 0 <= e+BIAS, e+BIAS+128 <= 128*L)
    pub fn place(m: u128, e: i32) -> Self {
        let s = e + BIAS;
        let mut w = [0u128; L];
        let mut i = 0;
        while i < L {
            let rel = s - 128 * (i as i32);
            w[i] = if rel >= 128 || rel <= -128 {
                0
            } else if rel >= 0 {
                m << (rel as u32)
            } else {
                m >> ((-rel) as u32)
            };
            i += 1;
        }
        Fx { w }
    }
    pub fn is_zero(&self) -> bool {
        let mut i = 0;
        let mut z = true;
        while i < L {
            z = z && self.w[i] == 0;
            i += 1;
        }
        z
    }
    pub fn cmp(&self, o: &Self) -> Ordering {
        let mut r = Ordering::Equal;
        let mut i = 0;
        while i < L {
            if self.w[i] != o.w[i] {
                r = if self.w[i] < o.w[i] { Ordering::Less } else { Ordering::Greater };
            }
            i += 1;
        }
        r
    }
    pub fn add(&self, o: &Self) -> Self {
        let mut w = [0u128; L];
        let mut c = false;
        let mut i = 0;
        while i < L {
            let (s1, c1) = self.w[i].overflowing_add(o.w[i]);
            let (s2, c2) = s1.overflowing_add(c as u128);
            w[i] = s2;
            c = c1 || c2;
            i += 1;
        }
        Fx { w }
    }
    /// self - o, requires self >= o
    pub fn sub(&self, o: &Self) -> Self {
        let mut w = [0u128; L];
        let mut b = false;
        let mut i = 0;
        while i < L {
            let (s1, b1) = self.w[i].overflowing_sub(o.w[i]);
            let (s2, b2) = s1.overflowing_sub(b as u128);
            w[i] = s2;
            b = b1 || b2;
            i += 1;
        }
        Fx { w }
    }
}

#[derive(Clone, Copy, PartialEq, Eq)]
pub enum FmaOp {
    /// a*b + c
    Add,
    /// a*b - c
    SubC,
    /// c - a*b
    SubProd,
}

/// fused family, exact in `Fx<L, BIAS>`; L/BIAS must cover [minpos^2 * 2^-64, maxpos^2 * 4]:
/// (8,0): L=1, BIAS=80;  (16,1): L=2, BIAS=128;  (32,2): L=5, BIAS=320.
pub fn fma_ok<const L: usize, const BIAS: i32>(a: u64, b: u64, c: u64, r: u64, n: u32, es: u32, op: FmaOp) -> bool {
    let r = r & mask(n);
    match (decode(a, n, es), decode(b, n, es), decode(c, n, es)) {
        (Dec::NaR, _, _) | (_, Dec::NaR, _) | (_, _, Dec::NaR) => r == nar(n),
        (da, db, dc) => {
            // signed terms: product sign pn (flipped for SubProd), addend sign nc (flipped for SubC)
            let prod: Option<(bool, u128, i32)> = match (da, db) {
                (Dec::Real { neg: na, m: ma, e: ea }, Dec::Real { neg: nb, m: mb, e: eb }) => {
                    Some(((na ^ nb) ^ (op == FmaOp::SubProd), (ma as u128) * (mb as u128), ea + eb))
                }
                _ => None,
            };
            let add: Option<(bool, u128, i32)> = match dc {
                Dec::Real { neg: nc, m: mc, e: ec } => Some((nc ^ (op == FmaOp::SubC), mc as u128, ec)),
                _ => None,
            };
            match (prod, add) {
                (None, None) => r == 0,
                (Some((pn, pm, pe)), None) => is_rounded(r, n, es, pn, |m, e| cmp_dy(pm, pe, m as u128, e)),
                (None, Some((cn, cm, ce))) => is_exact(r, n, es, cn, cm, ce),
                (Some((pn, pm, pe)), Some((cn, cm, ce))) => {
                    let p = Fx::<L, BIAS>::place(pm, pe);
                    let fc = Fx::<L, BIAS>::place(cm, ce);
                    let (s, sneg) = if pn == cn {
                        (p.add(&fc), pn)
                    } else {
                        match p.cmp(&fc) {
                            Ordering::Equal => return r == 0,
                            Ordering::Greater => (p.sub(&fc), pn),
                            Ordering::Less => (fc.sub(&p), cn),
                        }
                    };
                    is_rounded(r, n, es, sneg, |m, e| s.cmp(&Fx::<L, BIAS>::place(m as u128, e)))
                }
            }
        }
    }
}

pub fn fma8_ok(a: u64, b: u64, c: u64, r: u64, op: FmaOp) -> bool {
    fma_ok::<1, 80>(a, b, c, r, 8, 0, op)
}
pub fn fma16_ok(a: u64, b: u64, c: u64, r: u64, op: FmaOp) -> bool {
    fma_ok::<2, 128>(a, b, c, r, 16, 1, op)
}
pub fn fma32_ok(a: u64, b: u64, c: u64, r: u64, op: FmaOp) -> bool {
    fma_ok::<5, 320>(a, b, c, r, 32, 2, op)
}

/// sqrt: NaR for NaR and negative, 0 for 0, else sqrt(A) ? M  <=>  A ? M^2
pub fn sqrt_ok(a: u64, r: u64, n: u32, es: u32) -> bool {
    let r = r & mask(n);
    match decode(a, n, es) {
        Dec::NaR => r == nar(n),
        Dec::Zero => r == 0,
        Dec::Real { neg: true, .. } => r == nar(n),
        Dec::Real { neg: false, m: ma, e: ea } => {
            is_rounded(r, n, es, false, |m, e| cmp_dy(ma as u128, ea, (m as u128) * (m as u128), 2 * e))
        }
    }
}

/// power-of-two bracket of q = floor(n/d) for n >= 0, d > 0 (a consequence of the divider's contract,
/// proved from `/` in a_leaves.rs, assumed by the ghost stubs of the modular div proofs)
pub fn div_bracket(n: i64, d: i64, q: i64) -> bool {
    if n <= 0 || d <= 0 {
        return true;
    }
    let a = 63 - n.leading_zeros() as i64;
    let b = 63 - d.leading_zeros() as i64;
    if a < b {
        return q == 0;
    }
    let lo = 1i128 << (a - b);
    (q as i128) >= (lo >> 1) && (q as i128) < (lo << 1)
}

/// scale gap between the product a*b and the addend c (None unless all three are real): (ea + eb) - ec in units of
/// the decode exponents; used only to split obligations into exhaustive sub-cases
pub fn fma_gap(a: u64, b: u64, c: u64, n: u32, es: u32) -> Option<i32> {
    match (decode(a, n, es), decode(b, n, es), decode(c, n, es)) {
        (Dec::Real { e: ea, .. }, Dec::Real { e: eb, .. }, Dec::Real { e: ec, .. }) => Some(ea + eb + 32 - ec),
        _ => None,
    }
}
