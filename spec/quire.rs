//! Quire specs (C04, C12): abstract view = the accumulator read as one two's-complement integer / 2^F.
//! Q8E0: 32 bits, F = 12.  Q16E1: 128 bits, F = 56.  Q32E2: 512 bits (8 big-endian u64 limbs), F = 240.
use super::value::*;
use core::cmp::Ordering;

/// what a step `q (+|-)= a*b` must do to the accumulator
#[derive(Clone, Copy, PartialEq, Eq)]
pub enum Step<T> {
    /// result is the NaR pattern
    NaR,
    /// unchanged (all bits: frame)
    Same,
    /// exact new two's-complement image
    Sum(T),
    /// exact sum leaves the quire's range (or is the NaR pattern): outside the property's hypothesis
    OutOfRange,
}

/// signed exact term (-1)^neg * mag * 2^-F of the product a*b for an accumulator with F fraction bits;
/// None if an operand is zero; Err(()) encoded as `nar = true` if an operand is NaR
pub struct Term {
    pub nar: bool,
    pub zero: bool,
    pub neg: bool,
    pub p: u128, // mA*mB
    pub sh: i32, // value = p * 2^(sh - F) ... i.e. integer image = p * 2^sh
}
pub fn term(a: u64, b: u64, n: u32, es: u32, f: i32) -> Term {
    match (decode(a, n, es), decode(b, n, es)) {
        (Dec::NaR, _) | (_, Dec::NaR) => Term { nar: true, zero: false, neg: false, p: 0, sh: 0 },
        (Dec::Zero, _) | (_, Dec::Zero) => Term { nar: false, zero: true, neg: false, p: 0, sh: 0 },
        (Dec::Real { neg: na, m: ma, e: ea }, Dec::Real { neg: nb, m: mb, e: eb }) => {
            Term { nar: false, zero: false, neg: na ^ nb, p: (ma as u128) * (mb as u128), sh: ea + eb + f }
        }
    }
}
/// the bit pattern of posit ONE for (n, es)
pub fn one_bits(n: u32) -> u64 {
    1u64 << (n - 2)
}

// ----------------------------------------------------------------------------- Q8E0 / Q16E1 (<= 128 bits)
/// step spec for a `w`-bit accumulator (w = 32 or 128) held in the low bits of a u128
pub fn qsmall_step(old: u128, a: u64, b: u64, plus: bool, w: u32, n: u32, es: u32, f: i32) -> Step<u128> {
    let wmask: u128 = if w == 128 { u128::MAX } else { (1u128 << w) - 1 };
    let narq: u128 = 1u128 << (w - 1);
    let t = term(a, b, n, es, f);
    if old == narq || t.nar {
        return Step::NaR;
    }
    if t.zero {
        return Step::Same;
    }
    // integer image of |a*b|: exact (products of n-bit posits are multiples of 2^-F)
    let mag: u128 = if t.sh >= 0 { t.p << t.sh } else { t.p >> (-t.sh) };
    if mag >= narq {
        return Step::OutOfRange;
    }
    let neg = t.neg == plus; // subtracting flips the sign
    let delta = if neg { mag.wrapping_neg() & wmask } else { mag };
    let sum = old.wrapping_add(delta) & wmask;
    let so = (old >> (w - 1)) & 1;
    let sd = (delta >> (w - 1)) & 1;
    let ss = (sum >> (w - 1)) & 1;
    let ovf = so == sd && ss != so;
    if ovf || sum == narq {
        Step::OutOfRange
    } else {
        Step::Sum(sum)
    }
}
pub fn qsmall_step_ok(old: u128, new: u128, a: u64, b: u64, plus: bool, w: u32, n: u32, es: u32, f: i32) -> bool {
    let narq: u128 = 1u128 << (w - 1);
    match qsmall_step(old, a, b, plus, w, n, es, f) {
        Step::NaR => new == narq,
        Step::Same => new == old,
        Step::Sum(s) => new == s,
        Step::OutOfRange => true,
    }
}
/// to_posit spec: zero -> 0, NaR pattern -> NaR, else single posit-rule rounding of the exact view
pub fn qsmall_round_ok(bits: u128, r: u64, w: u32, n: u32, es: u32, f: i32) -> bool {
    let r = r & mask(n);
    let narq: u128 = 1u128 << (w - 1);
    if bits == 0 {
        return r == 0;
    }
    if bits == narq {
        return r == nar(n);
    }
    let wmask: u128 = if w == 128 { u128::MAX } else { (1u128 << w) - 1 };
    let neg = (bits >> (w - 1)) & 1 == 1;
    let mag = if neg { bits.wrapping_neg() & wmask } else { bits };
    is_rounded(r, n, es, neg, |m, e| cmp_dy(mag, -f, m as u128, e))
}

pub fn q8_step_ok(old: u32, new: u32, a: u8, b: u8, plus: bool) -> bool {
    qsmall_step_ok(old as u128, new as u128, a as u64, b as u64, plus, 32, 8, 0, 12)
}
pub fn q8_one_ok(old: u32, new: u32, a: u8, plus: bool) -> bool {
    qsmall_step_ok(old as u128, new as u128, a as u64, one_bits(8), plus, 32, 8, 0, 12)
}
pub fn q8_round_ok(bits: u32, r: u8) -> bool {
    qsmall_round_ok(bits as u128, r as u64, 32, 8, 0, 12)
}
pub fn q16_step_ok(old: u128, new: u128, a: u16, b: u16, plus: bool) -> bool {
    qsmall_step_ok(old, new, a as u64, b as u64, plus, 128, 16, 1, 56)
}
pub fn q16_one_ok(old: u128, new: u128, a: u16, plus: bool) -> bool {
    qsmall_step_ok(old, new, a as u64, one_bits(16), plus, 128, 16, 1, 56)
}
pub fn q16_round_ok(bits: u128, r: u16) -> bool {
    qsmall_round_ok(bits, r as u64, 128, 16, 1, 56)
}

// ----------------------------------------------------------------------------- Q32E2 (512 bits)
/// big-endian image (as `Q32E2::to_bits`) -> little-endian limbs
pub fn le512(be: &[u64; 8]) -> [u64; 8] {
    let mut le = [0u64; 8];
    let mut i = 0;
    while i < 8 {
        le[i] = be[7 - i];
        i += 1;
    }
    le
}
pub fn is_zero512(le: &[u64; 8]) -> bool {
    let mut z = true;
    let mut i = 0;
    while i < 8 {
        z = z && le[i] == 0;
        i += 1;
    }
    z
}
pub fn is_nar512(le: &[u64; 8]) -> bool {
    let mut z = le[7] == 0x8000_0000_0000_0000;
    let mut i = 0;
    while i < 7 {
        z = z && le[i] == 0;
        i += 1;
    }
    z
}
pub fn eq512(a: &[u64; 8], b: &[u64; 8]) -> bool {
    let mut z = true;
    let mut i = 0;
    while i < 8 {
        z = z && a[i] == b[i];
        i += 1;
    }
    z
}
/// p * 2^sh as 512-bit unsigned little-endian (p < 2^66; bits shifted out on the right must be zero)
pub fn place512(p: u128, sh: i32) -> [u64; 8] {
    let mut w = [0u64; 8];
    let mut i = 0;
    while i < 8 {
        let rel = sh - 64 * (i as i32); // limb i holds bits [64i, 64i+64)
        w[i] = if rel >= 64 || rel <= -128 {
            0
        } else if rel >= 0 {
            (p << (rel as u32)) as u64
        } else {
            (p >> ((-rel) as u32)) as u64
        };
        i += 1;
    }
    w
}
pub fn neg512(a: &[u64; 8]) -> [u64; 8] {
    let mut w = [0u64; 8];
    let mut c = true;
    let mut i = 0;
    while i < 8 {
        let (s, c1) = (!a[i]).overflowing_add(c as u64);
        w[i] = s;
        c = c1;
        i += 1;
    }
    w
}
pub fn add512(a: &[u64; 8], b: &[u64; 8]) -> [u64; 8] {
    let mut w = [0u64; 8];
    let mut c = false;
    let mut i = 0;
    while i < 8 {
        let (s1, c1) = a[i].overflowing_add(b[i]);
        let (s2, c2) = s1.overflowing_add(c as u64);
        w[i] = s2;
        c = c1 || c2;
        i += 1;
    }
    w
}
/// step spec for Q32E2 over big-endian images
pub fn q32_step(old_be: &[u64; 8], a: u32, b: u32, plus: bool) -> Step<[u64; 8]> {
    let old = le512(old_be);
    let t = term(a as u64, b as u64, 32, 2, 240);
    if is_nar512(&old) || t.nar {
        return Step::NaR;
    }
    if t.zero {
        return Step::Same;
    }
    // |a*b| <= 2^240 -> image below 2^481: always inside the 511-bit magnitude range
    let mag = place512(t.p, t.sh);
    let neg = t.neg == plus;
    let delta = if neg { neg512(&mag) } else { mag };
    let sum = add512(&old, &delta);
    let so = old[7] >> 63;
    let sd = delta[7] >> 63;
    let ss = sum[7] >> 63;
    let ovf = so == sd && ss != so;
    if ovf || is_nar512(&sum) {
        Step::OutOfRange
    } else {
        Step::Sum(sum)
    }
}
pub fn q32_step_ok(old_be: &[u64; 8], new_be: &[u64; 8], a: u32, b: u32, plus: bool) -> bool {
    let new = le512(new_be);
    match q32_step(old_be, a, b, plus) {
        Step::NaR => is_nar512(&new),
        Step::Same => eq512(&new, &le512(old_be)),
        Step::Sum(s) => eq512(&new, &s),
        Step::OutOfRange => true,
    }
}
pub fn q32_one_ok(old_be: &[u64; 8], new_be: &[u64; 8], a: u32, plus: bool) -> bool {
    q32_step_ok(old_be, new_be, a, 0x4000_0000, plus)
}

/// compare the 512-bit magnitude `mag` (little-endian, value = mag * 2^-240) with m * 2^e (m < 2^34)
pub fn cmp_mag512(mag: &[u64; 8], m: u64, e: i32) -> Ordering {
    let sh = e + 240;
    let mut w = [0u64; 8];
    let mut sticky = false; // m*2^sh has bits below 2^0
    let mut high = false; // m*2^sh does not fit 512 bits
    if sh < 0 {
        let s = (-sh) as u32;
        if s >= 64 {
            sticky = true;
        } else {
            w[0] = m >> s;
            sticky = (m & ((1u64 << s) - 1)) != 0;
        }
    } else {
        let limb = (sh / 64) as usize;
        let off = (sh % 64) as u32;
        if limb >= 8 {
            high = true;
        } else {
            w[limb] = m << off;
            if off != 0 {
                let hi = m >> (64 - off);
                if limb + 1 < 8 {
                    w[limb + 1] = hi;
                } else if hi != 0 {
                    high = true;
                }
            }
        }
    }
    if high {
        return Ordering::Less;
    }
    let mut r = Ordering::Equal;
    let mut i = 0;
    while i < 8 {
        if mag[i] != w[i] {
            r = if mag[i] < w[i] { Ordering::Less } else { Ordering::Greater };
        }
        i += 1;
    }
    if r == Ordering::Equal && sticky {
        Ordering::Less
    } else {
        r
    }
}
/// Q32E2 to_posit spec for an n-bit es=2 target (n = 32 for P32E2, n = N for PxE2<N>)
pub fn q32_round_ok(be: &[u64; 8], r: u64, n: u32) -> bool {
    let r = r & mask(n);
    let le = le512(be);
    if is_zero512(&le) {
        return r == 0;
    }
    if is_nar512(&le) {
        return r == nar(n);
    }
    let neg = le[7] >> 63 == 1;
    let mag = if neg { neg512(&le) } else { le };
    is_rounded(r, n, 2, neg, |m, e| cmp_mag512(&mag, m, e))
}
