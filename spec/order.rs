//! Ordering, sign and selection specs (C10).  Everything is stated over decoded values; results must be
//! one of the inputs or an exact constant ("unrounded").
use super::value::*;
use core::cmp::Ordering;

pub fn is_real(d: Dec) -> bool {
    matches!(d, Dec::Real { .. })
}

/// min: the smaller by value order (NaR below every real), and literally one of the two inputs
pub fn min_ok(a: u64, b: u64, r: u64, n: u32, es: u32) -> bool {
    (r == a || r == b) && cmp_val(r, a, n, es) != Ordering::Greater && cmp_val(r, b, n, es) != Ordering::Greater
}
pub fn max_ok(a: u64, b: u64, r: u64, n: u32, es: u32) -> bool {
    (r == a || r == b) && cmp_val(r, a, n, es) != Ordering::Less && cmp_val(r, b, n, es) != Ordering::Less
}
/// clamp(x, lo, hi) with lo <= hi: lo if x < lo, hi if x > hi, else x
pub fn clamp_ok(x: u64, lo: u64, hi: u64, r: u64, n: u32, es: u32) -> bool {
    if cmp_val(x, lo, n, es) == Ordering::Less {
        r == lo
    } else if cmp_val(x, hi, n, es) == Ordering::Greater {
        r == hi
    } else {
        r == x
    }
}
/// exact negation: NaR and zero fixed, otherwise same magnitude, opposite sign
pub fn neg_ok(a: u64, r: u64, n: u32, es: u32) -> bool {
    let r = r & mask(n);
    match decode(a, n, es) {
        Dec::NaR => r == nar(n),
        Dec::Zero => r == 0,
        Dec::Real { neg, m, e } => is_exact(r, n, es, !neg, m as u128, e),
    }
}
pub fn abs_ok(a: u64, r: u64, n: u32, es: u32) -> bool {
    let r = r & mask(n);
    match decode(a, n, es) {
        Dec::NaR => r == nar(n),
        Dec::Zero => r == 0,
        Dec::Real { m, e, .. } => is_exact(r, n, es, false, m as u128, e),
    }
}
/// signum: NaR -> NaR, 0 -> 0, positive -> 1, negative -> -1
pub fn signum_ok(a: u64, r: u64, n: u32, es: u32) -> bool {
    let r = r & mask(n);
    match decode(a, n, es) {
        Dec::NaR => r == nar(n),
        Dec::Zero => r == 0,
        Dec::Real { neg, .. } => is_exact(r, n, es, neg, 1, 0),
    }
}
/// copysign(a, b): |a| with the sign of b.  For a real a and a real non-zero b this is fully determined;
/// b = 0 counts as non-negative; for b = NaR only "r is a or -a" is required (NaR has no sign).
pub fn copysign_ok(a: u64, b: u64, r: u64, n: u32, es: u32) -> bool {
    let r = r & mask(n);
    match decode(a, n, es) {
        Dec::NaR => r == nar(n),
        Dec::Zero => r == 0,
        Dec::Real { m, e, .. } => match decode(b, n, es) {
            Dec::NaR => is_exact(r, n, es, false, m as u128, e) || is_exact(r, n, es, true, m as u128, e),
            Dec::Zero => is_exact(r, n, es, false, m as u128, e),
            Dec::Real { neg: nb, .. } => is_exact(r, n, es, nb, m as u128, e),
        },
    }
}
/// class code: 0 = zero, 1 = NaR, 2 = real non-zero
pub fn class_of(a: u64, n: u32, es: u32) -> u8 {
    match decode(a, n, es) {
        Dec::Zero => 0,
        Dec::NaR => 1,
        Dec::Real { .. } => 2,
    }
}
