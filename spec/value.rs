//! Value model and the posit rounding rule.
use core::cmp::Ordering;

#[derive(Clone, Copy, PartialEq, Eq)]
pub enum Dec {
    Zero,
    NaR,
    /// value = (-1)^neg * m * 2^e with 2^32 <= m < 2^33
    Real { neg: bool, m: u64, e: i32 },
}

#[inline]
pub fn mask(n: u32) -> u64 {
    if n >= 64 {
        u64::MAX
    } else {
        (1u64 << n) - 1
    }
}
#[inline]
pub fn nar(n: u32) -> u64 {
    1u64 << (n - 1)
}
#[inline]
pub fn maxpos(n: u32) -> u64 {
    (1u64 << (n - 1)) - 1
}
/// two's complement negation inside n bits
#[inline]
pub fn neg_bits(x: u64, n: u32) -> u64 {
    x.wrapping_neg() & mask(n)
}

/// compare m1*2^e1 with m2*2^e2 (m1, m2 > 0), exactly
pub fn cmp_dy(m1: u128, e1: i32, m2: u128, e2: i32) -> Ordering {
    let l1 = m1.leading_zeros();
    let l2 = m2.leading_zeros();
    let t1 = 127 - (l1 as i32) + e1;
    let t2 = 127 - (l2 as i32) + e2;
    if t1 != t2 {
        return if t1 < t2 { Ordering::Less } else { Ordering::Greater };
    }
    let a = if l1 >= 128 { 0 } else { m1 << l1 };
    let b = if l2 >= 128 { 0 } else { m2 << l2 };
    if a < b {
        Ordering::Less
    } else if a > b {
        Ordering::Greater
    } else {
        Ordering::Equal
    }
}

/// decode the n-bit posit held in the low n bits of `bits` (2 <= n <= 33, es <= 2)
pub fn decode(bits: u64, n: u32, es: u32) -> Dec {
    let bits = bits & mask(n);
    if bits == 0 {
        return Dec::Zero;
    }
    if bits == nar(n) {
        return Dec::NaR;
    }
    let neg = (bits >> (n - 1)) & 1 == 1;
    let mag = if neg { neg_bits(bits, n) } else { bits };
    let (m, e) = decode_pos(mag, n, es);
    Dec::Real { neg, m, e }
}

/// positive n-bit posit magnitude 0 < mag < 2^(n-1)  ->  (m, e), value = m * 2^e, 2^32 <= m < 2^33.
/// Standard: sign | regime run of r identical bits + terminator | es exponent bits | fraction;
/// bits cut off by the end of the word are zero.  k = r-1 for a run of ones, -r for a run of zeros.
pub fn decode_pos(mag: u64, n: u32, es: u32) -> (u64, i32) {
    let y = mag << (65 - n); // the n-1 bits after the sign, left aligned in 64 bits
    let (k, run) = if (y >> 63) == 1 {
        let run = y.leading_ones();
        (run as i32 - 1, run)
    } else {
        let run = y.leading_zeros();
        (-(run as i32), run)
    };
    let rest = if run + 1 >= 64 { 0 } else { y << (run + 1) };
    let exp = if es == 0 { 0 } else { rest >> (64 - es) };
    let frac = rest << es;
    let m = (1u64 << 32) | (frac >> 32);
    let scale = k * (1i32 << es) + exp as i32;
    (m, scale - 32)
}

/// Posit rule (Standard 2022, "rounding"): is the positive encoding r (n bits, 1..=maxpos) the
/// rounding of the positive real V?  `cmp_v(m, e)` returns the ordering of V relative to m*2^e.
/// The midpoint between encodings r and r+1 is the (n+1)-bit posit "r followed by a 1".
pub fn is_rounded_pos<F: Fn(u64, i32) -> Ordering>(r: u64, n: u32, es: u32, cmp_v: F) -> bool {
    let maxp = maxpos(n);
    if r == 0 || r > maxp {
        return false;
    }
    let lo_ok = r == 1 || {
        let (m, e) = decode_pos(2 * r - 1, n + 1, es);
        match cmp_v(m, e) {
            Ordering::Greater => true,
            Ordering::Equal => r & 1 == 0,
            Ordering::Less => false,
        }
    };
    let hi_ok = r == maxp || {
        let (m, e) = decode_pos(2 * r + 1, n + 1, es);
        match cmp_v(m, e) {
            Ordering::Less => true,
            Ordering::Equal => r & 1 == 0,
            Ordering::Greater => false,
        }
    };
    lo_ok && hi_ok
}

/// signed version: the n-bit pattern `r` must be the posit-rule rounding of (-1)^vneg * V, V > 0
pub fn is_rounded<F: Fn(u64, i32) -> Ordering>(r: u64, n: u32, es: u32, vneg: bool, cmp_v: F) -> bool {
    let r = r & mask(n);
    let rneg = (r >> (n - 1)) & 1 == 1;
    if rneg != vneg {
        return false;
    }
    let mag = if rneg { neg_bits(r, n) } else { r };
    is_rounded_pos(mag, n, es, cmp_v)
}

/// `r` is the exact n-bit encoding of (-1)^neg * m*2^e  (m > 0)
pub fn is_exact(r: u64, n: u32, es: u32, neg: bool, m: u128, e: i32) -> bool {
    match decode(r, n, es) {
        Dec::Real { neg: rn, m: rm, e: re } => rn == neg && cmp_dy(rm as u128, re, m, e) == Ordering::Equal,
        _ => false,
    }
}

/// constructive twin of `is_rounded_pos`: encode V = s*2^e (s > 0) as an n-bit positive posit,
/// round-to-nearest-even on the bit string, saturating at minpos / maxpos.
pub fn round_encode_pos(s: u128, e: i32, n: u32, es: u32) -> u64 {
    let maxp = maxpos(n);
    let lz = s.leading_zeros();
    let m = s << lz; // msb at bit 127
    let scale = e + 127 - lz as i32;
    let k = scale >> es;
    let ex = (scale - (k << es)) as u128;
    if k >= n as i32 - 2 {
        return maxp;
    }
    if k < -(n as i32 - 2) {
        return 1;
    }
    let (rl, pat): (u32, u64) = if k >= 0 {
        ((k + 2) as u32, ((1u64 << (k + 1)) - 1) << 1)
    } else {
        ((1 - k) as u32, 1)
    };
    let fr = m << 1; // drop hidden bit
    let sticky0 = es > 0 && (fr & ((1u128 << es) - 1)) != 0;
    let t: u128 = if es == 0 { fr } else { (ex << (128 - es)) | (fr >> es) };
    let kept = n - 1 - rl; // 0..=n-3
    let top = if kept == 0 { 0 } else { (t >> (128 - kept)) as u64 };
    let mag0 = (pat << kept) | top;
    let guard = (t >> (127 - kept)) & 1 == 1;
    let rest = t << (kept + 1);
    let sticky = rest != 0 || sticky0;
    let mag = mag0 + ((guard && (sticky || (mag0 & 1 == 1))) as u64);
    if mag > maxp {
        maxp
    } else {
        mag
    }
}

/// real-number order with NaR below everything and equal only to itself
pub fn cmp_val(a: u64, b: u64, n: u32, es: u32) -> Ordering {
    match (decode(a, n, es), decode(b, n, es)) {
        (Dec::NaR, Dec::NaR) => Ordering::Equal,
        (Dec::NaR, _) => Ordering::Less,
        (_, Dec::NaR) => Ordering::Greater,
        (x, y) => {
            let sx = sign_of(x);
            let sy = sign_of(y);
            if sx != sy {
                return if sx < sy { Ordering::Less } else { Ordering::Greater };
            }
            match (x, y) {
                (Dec::Real { m: ma, e: ea, neg }, Dec::Real { m: mb, e: eb, .. }) => {
                    let o = cmp_dy(ma as u128, ea, mb as u128, eb);
                    if neg {
                        o.reverse()
                    } else {
                        o
                    }
                }
                _ => Ordering::Equal,
            }
        }
    }
}

/// -1, 0, 1 (NaR counts as 0 here; callers treat NaR first)
pub fn sign_of(d: Dec) -> i32 {
    match d {
        Dec::Real { neg: true, .. } => -1,
        Dec::Real { neg: false, .. } => 1,
        _ => 0,
    }
}

// ---------------------------------------------------------------------------------------------
// generic-width helpers: PxE1<N>/PxE2<N> keep the N-bit pattern left-aligned in a u32
#[inline]
pub fn px(bits: u32, n: u32) -> u64 {
    (bits >> (32 - n)) as u64
}
#[inline]
pub fn px_closed(bits: u32, n: u32) -> bool {
    n == 32 || (bits << n) == 0
}

// ---------------------------------------------------------------------------------------------
// leaf contracts of the decode / encode helpers
/// `separate_bits_tmp(bits) = (k, tmp)` for a positive magnitude 0 < bits < 2^(n-1): k is the regime value,
/// tmp holds (bit n-1 = 0 | es exponent bits | fraction bits) left-aligned in n bits
pub fn septmp_ok(bits: u64, k: i32, tmp: u64, n: u32, es: u32) -> bool {
    let (m, e) = decode_pos(bits, n, es);
    let scale = e + 32;
    let ks = scale >> es;
    let exp = (scale - (ks << es)) as u64;
    let fb = n - 1 - es; // fraction field width inside tmp
    let frac32 = m & 0xffff_ffff;
    k == ks && tmp == ((exp << fb) | (frac32 >> (32 - fb)))
}
/// `calculate_regime(k) = (regime, reg_s, reg_len)`: the regime field for regime value k inside an n-bit word:
/// reg_len identical bits then a terminator, starting just below the sign bit (bits that do not fit are cut)
pub fn regime_ok(k: i32, regime: u64, reg_s: bool, reg_len: u32, n: u32) -> bool {
    let maxp = maxpos(n);
    if k < 0 {
        let len = (-k) as u32;
        let want = if len > n - 2 { 0 } else { 1u64 << (n - 2 - len) };
        !reg_s && reg_len == len && regime == want
    } else {
        let len = (k + 1) as u32;
        let want = if len >= n - 1 { maxp } else { maxp - (maxp >> len) };
        reg_s && reg_len == len && regime == want
    }
}

/// positive encoding `r` is the posit-rule rounding of frac * 2^e (frac > 0): contract of the encode helpers (calc_ui / form_ui)
pub fn round_pos_ok(frac: u128, e: i32, r: u64, n: u32, es: u32) -> bool {
    is_rounded_pos(r, n, es, |m, ee| cmp_dy(frac, e, m as u128, ee))
}
