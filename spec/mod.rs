//! Specification library for softposit-rs (woven into the scratch copy as `crate::__vspec`).
//!
//! Exact posit semantics written from the Posit Standard (2022), sharing no code with the crate:
//! values are dyadic rationals `(-1)^neg * m * 2^e` held in integers, "correctly rounded" is the
//! standard's rule stated as a predicate over the (n+1)-bit midpoint lattice (`is_rounded`).
//! Everything here is total, allocation-free, `no_std`, and overflow-free by construction (Kani
//! checks the spec's own arithmetic obligations together with the code's in every harness).
#![allow(dead_code)]
#![allow(clippy::all)]

pub mod value;
pub use value::*;
pub mod arith;
pub use arith::*;
pub mod conv;
pub use conv::*;
pub mod order;
pub use order::*;
pub mod quire;
pub use quire::*;
pub mod tags;

/// Native-replay trace hook: during verification (`cargo kani`, crate built without the `std`
/// feature) this is a no-op; during `cargo kani playback --features std` it prints the concrete
/// inputs and outputs of the replayed obligation so the replay file can quote them.
#[cfg(feature = "std")]
pub fn trace(tag: &str, vals: &[u64]) {
    extern crate std;
    std::eprint!("VERIF-TRACE {}", tag);
    for v in vals {
        std::eprint!(" {:#x}", v);
    }
    std::eprintln!();
}
#[cfg(not(feature = "std"))]
#[inline(always)]
pub fn trace(_tag: &str, _vals: &[u64]) {}
