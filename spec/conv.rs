//! Conversion specs: float <-> posit, posit <-> posit, integer <-> posit, integer-valued rounding functions.
use super::value::*;
use core::cmp::Ordering;

// ------------------------------------------------------------------------------------- float -> posit
/// IEEE-754 binary format described by (exponent bits, fraction bits)
fn float_fields(bits: u64, ebits: u32, fbits: u32) -> (bool, i32, u64) {
    let neg = (bits >> (ebits + fbits)) & 1 == 1;
    let ex = ((bits >> fbits) & ((1u64 << ebits) - 1)) as i32;
    let fr = bits & ((1u64 << fbits) - 1);
    (neg, ex, fr)
}

/// zero for +-0, NaR for NaN/inf, otherwise posit-rule rounding of the float's exact value
pub fn from_float_ok(bits: u64, ebits: u32, fbits: u32, r: u64, n: u32, es: u32) -> bool {
    let r = r & mask(n);
    let (neg, ex, fr) = float_fields(bits, ebits, fbits);
    let emax = (1i32 << ebits) - 1;
    let bias = (1i32 << (ebits - 1)) - 1;
    if ex == emax {
        return r == nar(n);
    }
    if ex == 0 && fr == 0 {
        return r == 0;
    }
    let (m, e) = if ex == 0 { (fr, 1 - bias - fbits as i32) } else { (fr | (1u64 << fbits), ex - bias - fbits as i32) };
    is_rounded(r, n, es, neg, |mm, ee| cmp_dy(m as u128, e, mm as u128, ee))
}
pub fn from_f32_ok(fb: u32, r: u64, n: u32, es: u32) -> bool {
    from_float_ok(fb as u64, 8, 23, r, n, es)
}
pub fn from_f64_ok(fb: u64, r: u64, n: u32, es: u32) -> bool {
    from_float_ok(fb, 11, 52, r, n, es)
}

// ------------------------------------------------------------------------------------- posit -> float
/// result float bit pattern is exactly the posit's value; NaR -> NaN; zero -> +0.0
pub fn to_float_exact_ok(p: u64, fb: u64, ebits: u32, fbits: u32, n: u32, es: u32) -> bool {
    let (fneg, ex, fr) = float_fields(fb, ebits, fbits);
    let emax = (1i32 << ebits) - 1;
    let bias = (1i32 << (ebits - 1)) - 1;
    match decode(p, n, es) {
        Dec::NaR => ex == emax && fr != 0,
        Dec::Zero => fb == 0,
        Dec::Real { neg, m, e } => {
            fneg == neg
                && ex != 0
                && ex != emax
                && cmp_dy((fr | (1u64 << fbits)) as u128, ex - bias - fbits as i32, m as u128, e) == Ordering::Equal
        }
    }
}
pub fn to_f64_ok(p: u64, fb: u64, n: u32, es: u32) -> bool {
    to_float_exact_ok(p, fb, 11, 52, n, es)
}
pub fn to_f32_exact_ok(p: u64, fb: u32, n: u32, es: u32) -> bool {
    to_float_exact_ok(p, fb as u64, 8, 23, n, es)
}
/// IEEE round-to-nearest-even of the posit's value to f32 (the value is always in f32's normal range
/// for n <= 32, es <= 2: 2^-120 > f32::MIN_POSITIVE, 2^120 < f32::MAX)
pub fn to_f32_rne_ok(p: u64, fb: u32, n: u32, es: u32) -> bool {
    match decode(p, n, es) {
        Dec::NaR => ((fb >> 23) & 0xff) == 0xff && (fb & 0x7f_ffff) != 0,
        Dec::Zero => fb == 0,
        Dec::Real { neg, m, e } => {
            // m in [2^32, 2^33): keep 24 bits
            let q = m >> 9;
            let rem = m & 0x1ff;
            let up = rem > 0x100 || (rem == 0x100 && (q & 1) == 1);
            let mut q = q + up as u64;
            let mut ex = e + 9 + 23 + 127;
            if q == 1u64 << 24 {
                q >>= 1;
                ex += 1;
            }
            let want = ((neg as u32) << 31) | ((ex as u32) << 23) | ((q as u32) & 0x7f_ffff);
            fb == want
        }
    }
}

// ------------------------------------------------------------------------------------- posit -> posit
/// NaR -> NaR, 0 -> 0, otherwise the posit-rule rounding of the source value into (n2, es2)
/// (which is the exact value whenever the target can hold it)
pub fn convert_ok(src: u64, n1: u32, es1: u32, r: u64, n2: u32, es2: u32) -> bool {
    let r = r & mask(n2);
    match decode(src, n1, es1) {
        Dec::NaR => r == nar(n2),
        Dec::Zero => r == 0,
        Dec::Real { neg, m, e } => is_rounded(r, n2, es2, neg, |mm, ee| cmp_dy(m as u128, e, mm as u128, ee)),
    }
}
/// widening: exactly the same value
pub fn convert_exact_ok(src: u64, n1: u32, es1: u32, r: u64, n2: u32, es2: u32) -> bool {
    let r = r & mask(n2);
    match decode(src, n1, es1) {
        Dec::NaR => r == nar(n2),
        Dec::Zero => r == 0,
        Dec::Real { neg, m, e } => is_exact(r, n2, es2, neg, m as u128, e),
    }
}

// ------------------------------------------------------------------------------------- integer -> posit
/// posit-rule rounding of the integer (-1)^neg * mag
pub fn from_int_ok(neg: bool, mag: u64, r: u64, n: u32, es: u32) -> bool {
    let r = r & mask(n);
    if mag == 0 {
        return r == 0;
    }
    is_rounded(r, n, es, neg, |mm, ee| cmp_dy(mag as u128, 0, mm as u128, ee))
}
pub fn from_i64_ok(x: i64, r: u64, n: u32, es: u32) -> bool {
    from_int_ok(x < 0, x.unsigned_abs(), r, n, es)
}
pub fn from_u64_ok(x: u64, r: u64, n: u32, es: u32) -> bool {
    from_int_ok(false, x, r, n, es)
}

// ------------------------------------------------------------------------------------- rounding to integers
#[derive(Clone, Copy, PartialEq, Eq)]
pub enum IMode {
    /// nearest, ties to even
    Round,
    Floor,
    Ceil,
    Trunc,
}
/// |v| = m*2^e (m < 2^33, e <= 95)  ->  magnitude of mode(v) for the signed value v
pub fn int_of(neg: bool, m: u64, e: i32, mode: IMode) -> u128 {
    if e >= 0 {
        return (m as u128) << e;
    }
    let sh = (-e) as u32;
    let (q, rem, half): (u128, u128, u128) = if sh >= 100 {
        (0, 1, 2)
    } else {
        ((m as u128) >> sh, (m as u128) & ((1u128 << sh) - 1), 1u128 << (sh - 1))
    };
    let up = match mode {
        IMode::Trunc => false,
        IMode::Floor => neg && rem != 0,
        IMode::Ceil => !neg && rem != 0,
        IMode::Round => rem > half || (rem == half && (q & 1) == 1),
    };
    if up {
        q + 1
    } else {
        q
    }
}
/// round/floor/ceil/trunc: the result is exactly that integer, as a posit; NaR -> NaR; 0 -> 0
pub fn intfn_ok(p: u64, r: u64, n: u32, es: u32, mode: IMode) -> bool {
    let r = r & mask(n);
    match decode(p, n, es) {
        Dec::NaR => r == nar(n),
        Dec::Zero => r == 0,
        Dec::Real { neg, m, e } => {
            let i = int_of(neg, m, e, mode);
            if i == 0 {
                return r == 0;
            }
            is_exact(r, n, es, neg, i, 0)
        }
    }
}
/// fract(x) = x - trunc(x) exactly
pub fn fract_ok(p: u64, r: u64, n: u32, es: u32) -> bool {
    let r = r & mask(n);
    match decode(p, n, es) {
        Dec::NaR => r == nar(n),
        Dec::Zero => r == 0,
        Dec::Real { neg, m, e } => {
            if e >= 0 {
                return r == 0;
            }
            let sh = (-e) as u32;
            let rem: u128 = if sh >= 100 { m as u128 } else { (m as u128) & ((1u128 << sh) - 1) };
            if rem == 0 {
                return r == 0;
            }
            is_exact(r, n, es, neg, rem, e)
        }
    }
}

/// to_iW: nearest integer, ties to even, clamped to [-2^(w-1), 2^(w-1)-1]; `res` is the result sign-extended to i128
pub fn to_int_ok(p: u64, res: i128, w: u32, n: u32, es: u32) -> bool {
    match decode(p, n, es) {
        Dec::NaR => true, // outside the property ("every real-valued")
        Dec::Zero => res == 0,
        Dec::Real { neg, m, e } => {
            let i = int_of(neg, m, e, IMode::Round);
            let lim: u128 = 1u128 << (w - 1);
            let want: i128 = if neg {
                if i > lim {
                    -(lim as i128)
                } else {
                    -(i as i128)
                }
            } else if i > lim - 1 {
                (lim - 1) as i128
            } else {
                i as i128
            };
            res == want
        }
    }
}
/// to_uW: nearest integer, ties to even, clamped to [0, 2^w-1]
pub fn to_uint_ok(p: u64, res: u64, w: u32, n: u32, es: u32) -> bool {
    match decode(p, n, es) {
        Dec::NaR => true,
        Dec::Zero => res == 0,
        Dec::Real { neg, m, e } => {
            if neg {
                return res == 0;
            }
            let i = int_of(neg, m, e, IMode::Round);
            let lim: u128 = if w >= 64 { u64::MAX as u128 } else { (1u128 << w) - 1 };
            let want = if i > lim { lim } else { i };
            res as u128 == want
        }
    }
}
