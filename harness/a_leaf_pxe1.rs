//! Leaf contract of the private PxE1::calculate_regime (child module of src/pxe1.rs), variants A and C.
use super::*;

// @h name=leaf_pxe1_calculate_regime props=C13,C14 fn=PxE1::calculate_regime tier=quick t=300 kind=contract
#[kani::proof_for_contract(PxE1::<32>::calculate_regime)]
fn leaf_pxe1_calculate_regime() {
    PxE1::<32>::calculate_regime(kani::any());
}
