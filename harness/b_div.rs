//! Modular proof of P16E1::div / P32E2::div (variant B): the integer divider `crate::div` / `crate::lldiv`
//! is replaced by a ghost-recording stub that is a transcription of its contract (proved against the real
//! divider in a_leaves.rs: `r.0 == numer / denom && r.1 == numer % denom` for numer >= 0, denom > 0, plus
//! the power-of-two bracket of the quotient).  The caller is then checked against that contract only:
//!  (i) exactly one call, precondition holds at the call site;
//!  (ii) the operands handed to the divider are the spec mantissas of |a| and |b|, bit for bit;
//!  (iii) the returned posit is the posit-rule rounding of (q + r/denom) * 2^E0, decided with q, r != 0 and
//!        shifts only (lemma_quotient, Verus: n = q*d + r, 0 <= r < d  ==>  (n < x*d <=> q < x)).
use crate::__vspec::*;
use crate::*;
use core::cmp::Ordering;

pub static mut G_CALLS: u32 = 0;
pub static mut G_N: i64 = 0;
pub static mut G_D: i64 = 0;
pub static mut G_Q: i64 = 0;
pub static mut G_R: i64 = 0;
pub static mut G_NONINT: bool = false;

pub fn div_havoc(numer: i32, denom: i32) -> (i32, i32) {
    assert!(numer >= 0 && denom > 0, "crate::div precondition at the call site"); // requires
    let q: i32 = kani::any();
    let r: i32 = kani::any();
    kani::assume(0 <= r && r < denom && q >= 0); // ensures (consequences of q = n/d, r = n%d)
    kani::assume(div_bracket(numer as i64, denom as i64, q as i64));
    unsafe {
        G_CALLS += 1;
        G_N = numer as i64;
        G_D = denom as i64;
        G_Q = q as i64;
        G_R = r as i64;
    }
    (q, r)
}
pub fn lldiv_havoc(numer: i64, denom: i64) -> (i64, i64) {
    assert!(numer >= 0 && denom > 0, "crate::lldiv precondition at the call site");
    let q: i64 = kani::any();
    let r: i64 = kani::any();
    kani::assume(0 <= r && r < denom && q >= 0);
    kani::assume(div_bracket(numer, denom, q));
    unsafe {
        G_CALLS += 1;
        G_N = numer;
        G_D = denom;
        G_Q = q;
        G_R = r;
    }
    (q, r)
}

/// order of (q + rem/d) * 2^e0 relative to m * 2^e, using only q, rem != 0 and shifts
pub fn cmp_q(q: i64, rem: i64, e0: i32, m: u64, e: i32) -> Ordering {
    let sh = e - e0;
    let qq = q as u128;
    if sh >= 0 {
        if sh > 60 {
            return Ordering::Less;
        }
        let x = (m as u128) << sh;
        if qq < x {
            Ordering::Less
        } else if qq > x {
            Ordering::Greater
        } else if rem != 0 {
            Ordering::Greater
        } else {
            Ordering::Equal
        }
    } else {
        let s = (-sh) as u32;
        if s >= 64 {
            return Ordering::Greater;
        }
        let qs = qq << s;
        let mm = m as u128;
        if qs > mm {
            Ordering::Greater
        } else if qs == mm {
            if rem != 0 {
                Ordering::Greater
            } else {
                Ordering::Equal
            }
        } else if qs + (1u128 << s) <= mm {
            Ordering::Less
        } else {
            // q*2^s < m < (q+1)*2^s: would need the remainder's magnitude; asserted never to happen
            unsafe {
                G_NONINT = true;
            }
            Ordering::Less
        }
    }
}

// @h name=c01_p16_div_modular props=C01 fn=P16E1::div tier=quick t=300 kind=plain unwind=18 variant=B mode=P-modular
#[kani::proof]
#[kani::unwind(18)]
#[kani::stub(crate::div, div_havoc)]
fn c01_p16_div_modular() {
    let a: u16 = kani::any();
    let b: u16 = kani::any();
    let r = P16E1::from_bits(a).div(P16E1::from_bits(b)).to_bits() as u64;
    trace("P16E1::div a b r", &[a as u64, b as u64, r]);
    match (decode(a as u64, 16, 1), decode(b as u64, 16, 1)) {
        (Dec::NaR, _) | (_, Dec::NaR) | (_, Dec::Zero) => assert!(r == 0x8000, "div: NaR operand or zero divisor gives NaR"),
        (Dec::Zero, _) => assert!(r == 0, "div: 0 / b = 0"),
        (Dec::Real { neg: na, m: ma, e: ea }, Dec::Real { neg: nb, m: mb, e: eb }) => {
            let (calls, n, d, q, rem) = unsafe { (G_CALLS, G_N, G_D, G_Q, G_R) };
            assert!(calls == 1, "STRUCTURE: div calls the integer divider exactly once");
            assert!(n == ((ma >> 4) as i64) && (ma & 0xf) == 0, "STRUCTURE: numerator handed to crate::div is the mantissa of |a|");
            assert!(d == ((mb >> 18) as i64) && (mb & 0x3ffff) == 0, "STRUCTURE: denominator handed to crate::div is the mantissa of |b|");
            let e0 = (ea + 4) - (eb + 18);
            kani::cover!(r == 0x7fff);
            kani::cover!(r == 1);
            let ok = is_rounded(r, 16, 1, na ^ nb, |m, e| cmp_q(q, rem, e0, m, e));
            assert!(ok, "div: exact quotient rounded by the posit rule");
            assert!(unsafe { !G_NONINT }, "every midpoint is a multiple of the quotient unit");
        }
    }
}

// @h name=c01_p32_div_modular props=C01 fn=P32E2::div tier=quick t=600 kind=plain unwind=34 variant=B mode=P-modular
#[kani::proof]
#[kani::unwind(34)]
#[kani::stub(crate::lldiv, lldiv_havoc)]
fn c01_p32_div_modular() {
    let a: u32 = kani::any();
    let b: u32 = kani::any();
    let r = P32E2::from_bits(a).div(P32E2::from_bits(b)).to_bits() as u64;
    trace("P32E2::div a b r", &[a as u64, b as u64, r]);
    match (decode(a as u64, 32, 2), decode(b as u64, 32, 2)) {
        (Dec::NaR, _) | (_, Dec::NaR) | (_, Dec::Zero) => assert!(r == 0x8000_0000, "div: NaR operand or zero divisor gives NaR"),
        (Dec::Zero, _) => assert!(r == 0, "div: 0 / b = 0"),
        (Dec::Real { neg: na, m: ma, e: ea }, Dec::Real { neg: nb, m: mb, e: eb }) => {
            let (calls, n, d, q, rem) = unsafe { (G_CALLS, G_N, G_D, G_Q, G_R) };
            assert!(calls == 1, "STRUCTURE: div calls the integer divider exactly once");
            assert!(n == ((ma as i64) << 28), "STRUCTURE: numerator handed to crate::lldiv is the mantissa of |a|");
            assert!(d == ((mb >> 2) as i64) && (mb & 3) == 0, "STRUCTURE: denominator handed to crate::lldiv is the mantissa of |b|");
            let e0 = ea - eb - 30;
            kani::cover!(r == 0x7fff_ffff);
            kani::cover!(r == 1);
            let ok = is_rounded(r, 32, 2, na ^ nb, |m, e| cmp_q(q, rem, e0, m, e));
            assert!(ok, "div: exact quotient rounded by the posit rule");
            assert!(unsafe { !G_NONINT }, "every midpoint is a multiple of the quotient unit");
        }
    }
}

// C16 for the operations that inline the divider (rem = a - trunc(a / b) * b, div_euclid, rem_euclid): totality proved modularly,
// with crate::lldiv replaced by its contract -- tried: does NOT close in 30 min either (three functions, each dividing twice), kept as tier deep
// @h name=c16_p32_rem_modular props=C16 fn=P32E2::rem,P32E2::div_euclid,P32E2::rem_euclid tier=deep t=1800 kind=plain unwind=70 variant=B mode=P-modular
#[kani::proof]
#[kani::unwind(70)]
#[kani::stub(crate::lldiv, lldiv_havoc)]
fn c16_p32_rem_modular() {
    let (x, y) = (P32E2::from_bits(kani::any()), P32E2::from_bits(kani::any()));
    let _ = (x.rem(y), x.div_euclid(y), x.rem_euclid(y));
    kani::cover!(true);
}
