//! Hand-written harnesses that need only crate-visible items (child module of the crate root).
use crate::__vspec::*;
use crate::*;

// @h name=c01_p8_mul_contract props=C01 fn=P8E0::mul tier=quick t=60 kind=contract unwind=10
#[kani::proof_for_contract(P8E0::mul)]
#[kani::unwind(10)]
fn c01_p8_mul_contract() {
    P8E0::from_bits(kani::any()).mul(P8E0::from_bits(kani::any()));
}


