//! C19: random sampling yields real posits in [0,1).  Child module of src/p16e1.rs (P16E1::sub_one is private);
//! only compiled with `--features rand`.
use super::*;
use crate::__vspec::*;
use crate::{P32E2, P8E0};
use core::cmp::Ordering;
use rand::distributions::{Distribution, Standard};

/// r is a real posit with 0 <= value < 1
fn in_unit_interval(r: u64, n: u32, es: u32) -> bool {
    match decode(r, n, es) {
        Dec::NaR => false,
        Dec::Zero => true,
        Dec::Real { neg, m, e } => !neg && cmp_dy(m as u128, e, 1, 0) == Ordering::Less,
    }
}

/// Symbolic generator: every call returns an arbitrary word, i.e. the harness quantifies over all RNG output
/// streams.  `FIRST_DRAW_RANGE != 0` additionally restricts the streams to those whose draws pass rand 0.8's
/// `UniformInt::sample_single` acceptance test for that range at once (used only to bound rand's rejection
/// loop: the value gen_range returns depends on the accepted draw only).
static mut RANGES: [u32; 2] = [0, 0];
static mut DRAW: usize = 0;
struct SymRng;
impl rand::RngCore for SymRng {
    fn next_u32(&mut self) -> u32 {
        let v: u32 = kani::any();
        unsafe {
            let range = if DRAW < 2 { RANGES[DRAW] } else { 0 };
            DRAW += 1;
            if range != 0 {
                let zone = (range << range.leading_zeros()).wrapping_sub(1);
                kani::assume((((v as u64) * (range as u64)) as u32) <= zone);
            }
        }
        v
    }
    fn next_u64(&mut self) -> u64 {
        kani::any()
    }
    fn fill_bytes(&mut self, dest: &mut [u8]) {
        for b in dest.iter_mut() {
            *b = kani::any();
        }
    }
    fn try_fill_bytes(&mut self, dest: &mut [u8]) -> Result<(), rand::Error> {
        self.fill_bytes(dest);
        Ok(())
    }
}

// @h name=c19_p8_sample props=C19 fn=Distribution<P8E0>::sample tier=quick t=120 features=rand unwind=3
#[kani::proof]
#[kani::unwind(3)]
fn c19_p8_sample() {
    // through the real rand 0.8 code, all streams: a power-of-two range accepts the first draw unconditionally
    let mut rng = SymRng;
    let p: P8E0 = Standard.sample(&mut rng);
    trace("sample P8E0", &[p.to_bits() as u64]);
    kani::cover!(p.to_bits() == 0x3f);
    assert!(in_unit_interval(p.to_bits() as u64, 8, 0), "P8E0 sample is a real posit in [0,1)");
}

// @h name=c19_p16_sub_one props=C19 fn=P16E1::sub_one tier=quick t=120 features=rand unwind=20
#[kani::proof]
#[kani::unwind(20)]
fn c19_p16_sub_one() {
    // contract of the private helper: requires ui_a < 2^18 (the range handed over by `sample`), ensures [0,1)
    let x: u32 = kani::any();
    kani::assume(x < 0x4_0000);
    let r = P16E1::sub_one(x).to_bits();
    trace("P16E1::sub_one x r", &[x as u64, r as u64]);
    kani::cover!(r == 0x3fff);
    kani::cover!(r == 0);
    assert!(in_unit_interval(r as u64, 16, 1), "sub_one(x) is a real posit in [0,1) for every 18-bit x");
}

// @h name=c19_p16_sample props=C19 fn=Distribution<P16E1>::sample tier=quick t=300 features=rand unwind=20
#[kani::proof]
#[kani::unwind(20)]
fn c19_p16_sample() {
    unsafe {
        RANGES = [0x4_0000, 0];
    }
    let mut rng = SymRng;
    let p: P16E1 = Standard.sample(&mut rng);
    trace("sample P16E1", &[p.to_bits() as u64]);
    kani::cover!(p.to_bits() == 0x3fff);
    kani::cover!(p.to_bits() != 0 && p.to_bits() < 0x0800);
    assert!(in_unit_interval(p.to_bits() as u64, 16, 1), "P16E1 sample is a real posit in [0,1)");
}

// @h name=c19_p32_body props=C19 fn=Distribution<P32E2>::sample tier=quick t=600 features=rand unwind=34
#[kani::proof]
#[kani::unwind(34)]
fn c19_p32_body() {
    // the body of `sample` for every value gen_range may return (assumed contract: low <= s < high)
    let s: u32 = kani::any();
    let s2: u32 = kani::any();
    kani::assume(s >= 0x4000_0000 && s < 0x4800_0000 && s2 < 4);
    let r = (P32E2::from_bits(s) - P32E2::ONE).to_bits() ^ s2;
    trace("P32 sample body s s2 r", &[s as u64, s2 as u64, r as u64]);
    kani::cover!(r != 0);
    assert!(in_unit_interval(r as u64, 32, 2), "(1.x - 1) ^ s2 is a real posit in [0,1)");
}

// @h name=c19_p32_sample props=C19 fn=Distribution<P32E2>::sample tier=quick t=600 features=rand unwind=34
#[kani::proof]
#[kani::unwind(34)]
fn c19_p32_sample() {
    unsafe {
        RANGES = [0x0800_0000, 4];
    }
    let mut rng = SymRng;
    let p: P32E2 = Standard.sample(&mut rng);
    trace("sample P32E2", &[p.to_bits() as u64]);
    kani::cover!(p.to_bits() > 0x3000_0000);
    assert!(in_unit_interval(p.to_bits() as u64, 32, 2), "P32E2 sample is a real posit in [0,1)");
}
