//! Harnesses that need only crate-visible items (child module of the crate root).
use crate::__vspec::*;
use crate::*;

// @h name=c01_p8_mul props=C01 fn=P8E0::mul tier=quick t=60 kind=contract
#[kani::proof_for_contract(P8E0::mul)]
#[kani::unwind(10)]
fn c01_p8_mul() {
    P8E0::from_bits(kani::any()).mul(P8E0::from_bits(kani::any()));
}

// @h name=c09_p8_ceil props=C09 fn=P8E0::ceil tier=quick t=60 kind=plain
#[kani::proof]
#[kani::unwind(10)]
fn c09_p8_ceil() {
    let a: u8 = kani::any();
    let r = P8E0::from_bits(a).ceil().to_bits();
    trace("c09_p8_ceil", &[a as u64, r as u64]);
    assert!(intfn_ok(a as u64, r as u64, 8, 0, IMode::Ceil), "ceil contract");
}
