//! Leaf contracts (variant A): the integer dividers and the regime decode / encode helpers carry woven
//! `kani::requires/ensures` attributes (see contracts.py); each is proved here against its own body.
use crate::__vspec::*;
use crate::*;

// The divider postcondition is proved by the Verus unit lemmas/div_lemmas.rs (SAT cannot prove two divider circuits
// equal).  These two harnesses state the same postcondition in plain form and are only run to search for a
// counterexample when that unit fails.
// @h name=leaf_div props=C01 fn=crate::div tier=cex t=120 kind=plain
#[kani::proof]
fn leaf_div() {
    let (n, d): (i32, i32) = (kani::any(), kani::any());
    kani::assume(n >= 0 && d > 0);
    let r = crate::div(n, d);
    trace("crate::div n d q r", &[n as u64, d as u64, r.0 as u64, r.1 as u64]);
    assert!(r.0 == n / d && r.1 == n % d, "div(n, d) == (n / d, n % d) for n >= 0, d > 0");
}
// @h name=leaf_lldiv props=C01 fn=crate::lldiv tier=cex t=120 kind=plain
#[kani::proof]
fn leaf_lldiv() {
    let (n, d): (i64, i64) = (kani::any(), kani::any());
    kani::assume(n >= 0 && d > 0);
    let r = crate::lldiv(n, d);
    trace("crate::lldiv n d q r", &[n as u64, d as u64, r.0 as u64, r.1 as u64]);
    assert!(r.0 == n / d && r.1 == n % d, "lldiv(n, d) == (n / d, n % d) for n >= 0, d > 0");
}

// @h name=leaf_p8_separate_bits_tmp props=C01 fn=P8E0::separate_bits_tmp tier=quick t=120 kind=contract unwind=10
#[kani::proof_for_contract(P8E0::separate_bits_tmp)]
#[kani::unwind(10)]
fn leaf_p8_separate_bits_tmp() {
    P8E0::separate_bits_tmp(kani::any());
}
// @h name=leaf_p16_separate_bits_tmp props=C01 fn=P16E1::separate_bits_tmp tier=quick t=120 kind=contract unwind=18
#[kani::proof_for_contract(P16E1::separate_bits_tmp)]
#[kani::unwind(18)]
fn leaf_p16_separate_bits_tmp() {
    P16E1::separate_bits_tmp(kani::any());
}
// @h name=leaf_p32_separate_bits_tmp props=C01 fn=P32E2::separate_bits_tmp tier=quick t=120 kind=contract unwind=34
#[kani::proof_for_contract(P32E2::separate_bits_tmp)]
#[kani::unwind(34)]
fn leaf_p32_separate_bits_tmp() {
    P32E2::separate_bits_tmp(kani::any());
}
// @h name=leaf_p8_calculate_regime props=C01 fn=P8E0::calculate_regime tier=quick t=120 kind=contract
#[kani::proof_for_contract(P8E0::calculate_regime)]
fn leaf_p8_calculate_regime() {
    P8E0::calculate_regime(kani::any());
}
// @h name=leaf_p16_calculate_regime props=C01 fn=P16E1::calculate_regime tier=quick t=120 kind=contract
#[kani::proof_for_contract(P16E1::calculate_regime)]
fn leaf_p16_calculate_regime() {
    P16E1::calculate_regime(kani::any());
}
// @h name=leaf_p32_calculate_regime props=C01 fn=P32E2::calculate_regime tier=quick t=120 kind=contract
#[kani::proof_for_contract(P32E2::calculate_regime)]
fn leaf_p32_calculate_regime() {
    P32E2::calculate_regime(kani::any());
}

// consequences of the divider contract that the ghost stubs of b_div.rs assume (no repo code involved):
// for n >= 0, d > 0 and q = n / d, r = n % d:  0 <= r < d, 0 <= q, and the power-of-two bracket of q.
// @h name=lemma_div_bracket32 props=C01 fn=crate::div tier=quick t=300 kind=lemma
#[kani::proof]
fn lemma_div_bracket32() {
    let n: i32 = kani::any();
    let d: i32 = kani::any();
    kani::assume(n >= 0 && d > 0);
    let q = n / d;
    let r = n % d;
    assert!(0 <= r && r < d && q >= 0, "range of quotient and remainder");
    assert!(div_bracket(n as i64, d as i64, q as i64), "power-of-two bracket of the quotient");
}
// @h name=lemma_div_bracket64 props=C01 fn=crate::lldiv tier=quick t=600 kind=lemma
#[kani::proof]
fn lemma_div_bracket64() {
    let n: i64 = kani::any();
    let d: i64 = kani::any();
    kani::assume(n >= 0 && d > 0);
    let q = n / d;
    let r = n % d;
    assert!(0 <= r && r < d && q >= 0, "range of quotient and remainder");
    assert!(div_bracket(n, d, q), "power-of-two bracket of the quotient");
}

// generic-width leaves (the functions do not depend on N; two instantiations each)
// @h name=leaf_pxe2_separate_bits_tmp props=C13,C14 fn=PxE2::separate_bits_tmp tier=quick t=300 kind=contract unwind=36
#[kani::proof_for_contract(PxE2::<8>::separate_bits_tmp)]
#[kani::unwind(36)]
fn leaf_pxe2_separate_bits_tmp() {
    PxE2::<8>::separate_bits_tmp(kani::any());
}
// @h name=leaf_pxe1_separate_bits_tmp props=C13,C14 fn=PxE1::separate_bits_tmp tier=quick t=300 kind=contract unwind=36
#[kani::proof_for_contract(PxE1::<8>::separate_bits_tmp)]
#[kani::unwind(36)]
fn leaf_pxe1_separate_bits_tmp() {
    PxE1::<8>::separate_bits_tmp(kani::any());
}
// @h name=leaf_pxe2_calculate_regime props=C13,C14 fn=PxE2::calculate_regime tier=quick t=300 kind=contract
#[kani::proof_for_contract(PxE2::<32>::calculate_regime)]
fn leaf_pxe2_calculate_regime() {
    PxE2::<32>::calculate_regime(kani::any());
}
