//! Variant C only: a fully modular chain with Kani's own contract machinery (proof_for_contract + stub_verified).
use crate::__vspec::*;
use crate::*;

// ---- modular chain: fract against the contracts of sub and trunc -------------------------------------------------
impl kani::Arbitrary for P8E0 {
    fn any() -> Self {
        P8E0::from_bits(kani::any())
    }
}
impl kani::Arbitrary for P16E1 {
    fn any() -> Self {
        P16E1::from_bits(kani::any())
    }
}

// @h name=c09_p8_sub_contract props=C09,C01 fn=P8E0::sub tier=quick t=600 kind=contract unwind=10 variant=C
#[kani::proof_for_contract(P8E0::sub)]
#[kani::unwind(10)]
fn c09_p8_sub_contract() {
    P8E0::from_bits(kani::any()).sub(P8E0::from_bits(kani::any()));
}
// @h name=c09_p8_trunc_contract props=C09 fn=P8E0::trunc tier=quick t=600 kind=contract unwind=10 variant=C
#[kani::proof_for_contract(P8E0::trunc)]
#[kani::unwind(10)]
fn c09_p8_trunc_contract() {
    P8E0::from_bits(kani::any()).trunc();
}
// @h name=c09_p8_fract_modular props=C09 fn=P8E0::fract tier=quick t=600 kind=plain unwind=10 variant=C mode=P-modular
#[kani::proof]
#[kani::unwind(10)]
#[kani::stub_verified(P8E0::sub)]
#[kani::stub_verified(P8E0::trunc)]
fn c09_p8_fract_modular() {
    // the callee bodies are replaced by their verified contracts: only `x - trunc(x)` (the caller) is checked here
    let a: u8 = kani::any();
    let r = P8E0::from_bits(a).fract().to_bits();
    assert!(fract_ok(a as u64, r as u64, 8, 0), "fract: exactly x - trunc(x), from the contracts of sub and trunc");
}
// @h name=c09_p16_sub_contract props=C09,C01 fn=P16E1::sub tier=thorough t=3600 kind=contract unwind=18 variant=C
#[kani::proof_for_contract(P16E1::sub)]
#[kani::unwind(18)]
fn c09_p16_sub_contract() {
    P16E1::from_bits(kani::any()).sub(P16E1::from_bits(kani::any()));
}
// @h name=c09_p16_trunc_contract props=C09 fn=P16E1::trunc tier=quick t=600 kind=contract unwind=18 variant=C
#[kani::proof_for_contract(P16E1::trunc)]
#[kani::unwind(18)]
fn c09_p16_trunc_contract() {
    P16E1::from_bits(kani::any()).trunc();
}
// @h name=c09_p16_fract_modular props=C09 fn=P16E1::fract tier=quick t=600 kind=plain unwind=18 variant=C mode=P-modular
#[kani::proof]
#[kani::unwind(18)]
#[kani::stub_verified(P16E1::sub)]
#[kani::stub_verified(P16E1::trunc)]
fn c09_p16_fract_modular() {
    let a: u16 = kani::any();
    let r = P16E1::from_bits(a).fract().to_bits();
    assert!(fract_ok(a as u64, r as u64, 16, 1), "fract: exactly x - trunc(x), from the contracts of sub and trunc");
}
