"""Contract table: which real functions of /repo carry which woven contract attributes, and which
harness modules are attached where.  Pure data, read by bin/weave.py and bin/check."""

S = "crate::__vspec"

def _b(t):  # bits of a posit-typed expression as u64
    return f"({t}).to_bits() as u64"

CONTRACTS = []

def C(fn, file, anchor, requires=(), ensures=(), **kw):
    CONTRACTS.append(dict(fn=fn, file=file, anchor=anchor, requires=list(requires), ensures=list(ensures), **kw))

# ---- P8E0 -------------------------------------------------------------------------------------
C("P8E0::mul", "src/p8e0/ops.rs", r"pub const fn mul\(self, other: Self\) -> Self",
  ensures=[f"|r: &Self| {S}::mul_ok({_b('self')}, {_b('other')}, {_b('r')}, 8, 0)"])

# (repo file to append `mod` to, harness file under /verif/harness).  Harness files not listed here are
# attached to the crate root (src/lib.rs): they only need crate-visible items.
_SPECIAL = {
}
import glob as _glob, os as _os
MODULES = []
for _p in sorted(_glob.glob(_os.path.join(_os.path.dirname(_os.path.abspath(__file__)), "harness", "*.rs"))):
    _f = _os.path.basename(_p)
    MODULES.append((_SPECIAL.get(_f, "src/lib.rs"), _f))

PROPERTY_META = {}
