"""Contract table: which real functions of /repo carry which woven contract attributes, and which
harness modules are attached where.  Pure data, read by bin/weave.py and bin/check."""

S = "crate::__vspec"

def _b(t):  # bits of a posit-typed expression as u64
    return f"({t}).to_bits() as u64"

CONTRACTS = []

def C(fn, file, anchor, requires=(), ensures=(), **kw):
    CONTRACTS.append(dict(fn=fn, file=file, anchor=anchor, requires=list(requires), ensures=list(ensures), **kw))

# ---- P8E0 -------------------------------------------------------------------------------------
C("P8E0::mul", "src/p8e0/ops.rs", r"pub const fn mul\(self, other: Self\) -> Self",
  ensures=[f"|r: &Self| {S}::mul_ok({_b('self')}, {_b('other')}, {_b('r')}, 8, 0)"], stubbed_in_b=True)

# ---- generic-width decode / encode leaves (patterns are left-aligned in 32 bits, so the 32-bit decode is the N-bit value)
for _T, _f, _es in (("PxE1", "src/pxe1.rs", 1), ("PxE2", "src/pxe2.rs", 2)):
    C(f"{_T}::separate_bits_tmp", _f, r"pub\(crate\) const fn separate_bits_tmp\(bits: u32\)",
      requires=["bits != 0 && bits < 0x8000_0000"],
      ensures=[f"|r: &(i8, u32)| {S}::septmp_ok(bits as u64, r.0 as i32, r.1 as u64, 32, {_es})"])
    C(f"{_T}::calculate_regime", _f, r"(pub\(crate\) )?const fn calculate_regime\(k: i8\)",
      requires=["k != i8::MIN && k != i8::MAX"],
      ensures=[f"|r: &(u32, bool, u32)| {S}::regime_ok(k as i32, r.0 as u64, r.1, r.2, 32)"])

# ---- a fully modular chain with Kani's own contract machinery: fract(x) = x - trunc(x) is proved against the
# CONTRACTS of sub and trunc (stub_verified), which are proved against their bodies (proof_for_contract).
# Woven only in variant C: Kani asserts woven postconditions at every call site, and a postcondition on `sub` would be re-checked
# inside every harness that subtracts (rem, fract, quire residuals ...), which made c16_p16_rem run for more than an hour.
for _T, _t, _n, _es in (("P8E0", "p8e0", 8, 0), ("P16E1", "p16e1", 16, 1)):
    C(f"{_T}::sub", f"src/{_t}/ops.rs", r"pub const fn sub\(self, other: Self\) -> Self",
      ensures=[f"|r: &Self| {S}::sub_ok({_b('self')}, {_b('other')}, {_b('r')}, {_n}, {_es})"], stubbed_in_b=True, variant_only="C")
    C(f"{_T}::trunc", f"src/{_t}/math.rs", r"pub const fn trunc\(self\) -> Self",
      ensures=[f"|r: &Self| {S}::intfn_ok({_b('self')}, {_b('r')}, {_n}, {_es}, {S}::IMode::Trunc)"], stubbed_in_b=True, variant_only="C")

# ---- integer dividers (crate root) ---------------------------------------------------------------
for _f, _t in (("div", "i32"), ("lldiv", "i64")):
    C(f"crate::{_f}", "src/lib.rs", rf"^const fn {_f}\(numer: {_t}, denom: {_t}\)",
      requires=["numer >= 0 && denom > 0"],
      # the postcondition (r == (numer / denom, numer % denom), numer == denom*q + r, 0 <= r < denom) is proved by
      # Verus on the extracted text (lemmas/div_lemmas.rs); as a Kani attribute it would be re-asserted at every call
      # site, which asks SAT to prove two divider circuits equal.  Only the precondition is woven for Kani.
      stubbed_in_b=True)

# ---- decode / encode leaves ------------------------------------------------------------------------
for _T, _f, _u, _n, _es in (("P8E0", "src/p8e0.rs", "u8", 8, 0), ("P16E1", "src/p16e1.rs", "u16", 16, 1), ("P32E2", "src/p32e2.rs", "u32", 32, 2)):
    C(f"{_T}::separate_bits_tmp", _f, rf"pub\(crate\) const fn separate_bits_tmp\(bits: {_u}\)",
      requires=[f"bits != 0 && (bits as u64) < {S}::nar({_n})"],
      ensures=[f"|r: &(i8, {_u})| {S}::septmp_ok(bits as u64, r.0 as i32, r.1 as u64, {_n}, {_es})"])
    C(f"{_T}::calculate_regime", _f, r"pub\(crate\) const fn calculate_regime\(k: i8\)",
      requires=["k != i8::MIN && k != i8::MAX"],
      ensures=[f"|r: &({_u}, bool, u32)| {S}::regime_ok(k as i32, r.0 as u64, r.1, r.2, {_n})"])

# (repo file to append `mod` to, harness file under /verif/harness).  Harness files not listed here are
# attached to the crate root (src/lib.rs): they only need crate-visible items.
_SPECIAL = {
    "g_q8.rs": "src/quire8.rs",
    "g_q16.rs": "src/quire16.rs",
    "g_q32.rs": "src/quire32.rs",
    "h_rand.rs": ("src/p16e1.rs", 'feature = "rand"'),
    "a_leaf_pxe1.rs": "src/pxe1.rs",
    "g_b_q8poly.rs": "src/quire8.rs",
    "g_b_q16poly.rs": "src/quire16.rs",
    "g_b_q32poly.rs": "src/quire32.rs",
}
import glob as _glob, os as _os
MODULES = []
MODULE_CFG = {}
for _p in sorted(_glob.glob(_os.path.join(_os.path.dirname(_os.path.abspath(__file__)), "harness", "*.rs"))):
    _f = _os.path.basename(_p)
    _v = _SPECIAL.get(_f, "src/lib.rs")
    if isinstance(_v, tuple):
        MODULES.append((_v[0], _f))
        MODULE_CFG[_f] = _v[1]
    else:
        MODULES.append((_v, _f))


_KANI_NOTE = ("Trusted: Kani 0.68 MIR->goto translation, CBMC 6.11 bit-precise semantics and the CaDiCaL answer; the spec library /verif/spec "
              "(exact dyadic decode + posit rule as a predicate over (n+1)-bit midpoints) as the meaning of 'correctly rounded'; rustc for the "
              "native replay. Loops are unwound to the word width with unwinding assertions on (complete for these loops, and the termination bound).")

PROPERTY_META = {
 "C01": dict(level="proof",
   text="Postcondition `op_ok` (exact real result rounded by the posit rule, NaR/zero clauses) on the real add/sub/mul/div of P8E0, P16E1, P32E2, "
        "discharged by Kani over all 2^16/2^32/2^64 operand pairs: monolithic for P8, P16 and P32 mul; P32 add/sub by an exhaustive 2-way split on the "
        "sign relation (thorough tier); P16/P32 div modularly against the contract of the integer divider, which is proved on the mechanically "
        "extracted real text of crate::div/lldiv by Verus together with the quotient lemmas. Leaf contracts (separate_bits_tmp, calculate_regime) "
        "are woven as kani::requires/ensures attributes and checked at every call site.",
   note=_KANI_NOTE + " Quick tier does not run the P32 add/sub halves (thorough: ~45 min); the modular div proof assumes the ghost stub is a faithful "
        "transcription of the divider contract (same text, proved by Verus) and Rust's definition of / and % on non-negative operands.",
   assumptions=["ghost stubs for crate::div / crate::lldiv transcribe the contract proved by Verus (lemmas/div_lemmas.rs)",
                "operator-trait spellings are covered under C17"]),
 "C02": dict(level="proof",
   text="Postcondition from_f32_ok/from_f64_ok (posit-rule rounding of the float's exact value, +-0 -> 0, NaN/inf -> NaR) on the six real "
        "from_f32/from_f64 functions over all 2^32 / 2^64 bit patterns, plus from_f32(x) == from_f64(x as f64); discharged monolithically by Kani.",
   note=_KANI_NOTE + " CBMC's IEEE model for `as f64` widening and f32/f64 transmutes.", assumptions=[]),
 "C03": dict(level="proof",
   text="Postconditions on to_f64/to_f32 (bit pattern of the result decodes to exactly the posit's value; IEEE RNE for P32 to_f32) and the "
        "posit -> f64 -> posit round trip for every bit pattern, discharged by Kani. The Display/FromStr text round trip is reduced to the f64 round "
        "trip plus the assumed std contract that f64 Display/parse round-trips (core::fmt / dec2flt are out of CBMC's reach).",
   note=_KANI_NOTE + " ASSUMED (not checked): Rust's `{}` formatting of f64 followed by str::parse::<f64>() returns the same f64 (NaN to NaN).",
   assumptions=["std contract: f64 -> Display string -> parse::<f64>() is the identity on non-NaN values and maps NaN to NaN (text half of C03)"]),
 "C04": dict(level="proof",
   text="Quire as a data structure with abstract view (two's-complement integer / 2^F): step contracts on the private fdp / fdp_one over an ARBITRARY "
        "pre-state (NaR absorbing; zero product = frame on all bits; otherwise new = old +- exact product on all bits when in range), to_posit = single "
        "posit-rule rounding of the view over all 2^32 / 2^128 / 2^512 states, is_zero/is_nar/clear/from_bits/to_bits (Kani); the history part (any sequence, "
        "any order, NaR sticky) is the induction over the step contract, checked by Verus (lemmas/quire_history.rs: run = sum, adjacent swaps, NaR "
        "absorbing), plus a direct 2-step commutation obligation on the real code.",
   note=_KANI_NOTE + " Q32 fdp / fdp_one step obligations (577 free bits) run in the thorough tier only. The induction over histories is mechanised over an abstract model "
        "of the step contract (view' = view + term); that the model is the contract is by inspection. linalg::quire_dot is not under contract.",
   assumptions=["the Verus history model (view' = view + term, NaR absorbing) transcribes the Kani-proved step contract by inspection", "tuple/array spellings are C17 obligations"]),
 "C05": dict(level="proof",
   text="Postcondition fma_ok(op) (exact +-a*b+-c in wide fixed point, rounded once) on mul_add / mul_sub / sub_product: P8 over all 2^24 triples "
        "(quick), P16 over all 2^48 (thorough), P32 by an exhaustive 2-way split on the sign relation (thorough, hours).",
   note=_KANI_NOTE + " P32 halves may exceed their time budget; an undischarged half is reported as undecided (exit 2), never as a violation.",
   assumptions=[]),
 "C06": dict(level="proof",
   text="Postcondition sqrt_ok (mid_lo^2 <= a <= mid_hi^2 form of the posit rule; NaR for negative/NaR, 0 for 0) on P8E0::sqrt and P16E1::sqrt over all "
        "inputs by Kani. P32E2::sqrt: SAT does not close the postcondition (seven 64-bit products); Kani proves totality and the NaR/zero clauses, and "
        "the same contract is evaluated natively on all 2^32 inputs (exhaustive enumeration, labelled as such, not counted as proved).",
   note=_KANI_NOTE + " P32 sqrt postcondition: exhaustive native evaluation over 2^32 inputs (complete, but enumeration by execution).",
   assumptions=["P32E2::sqrt value clause is decided by exhaustive native evaluation of the contract, not by the verifier"]),
 "C07": dict(level="proof",
   text="Postconditions from_int_ok / to_int_ok / to_uint_ok on every from_{i8..usize,u8..usize} and to_{i32,u32,i64,u64} of the three types over "
        "all integers / all posit patterns (NaR excluded for to_*), plus agreement of the From/Into impls; discharged monolithically by Kani.",
   note=_KANI_NOTE, assumptions=["isize/usize are 64-bit on the verified target"]),
 "C08": dict(level="proof",
   text="Postcondition convert_ok (widening exact, narrowing = posit-rule rounding, 0/NaR preserved) on the six from_p* functions over all source "
        "patterns, plus widen-then-narrow identity and From agreement; Kani.", note=_KANI_NOTE, assumptions=[]),
 "C09": dict(level="proof",
   text="Postconditions intfn_ok(mode) / fract_ok on round, floor, ceil, trunc, fract of the three types over all inputs: the result decodes to "
        "exactly the required integer (or exactly x - trunc(x)); Kani.", note=_KANI_NOTE, assumptions=[]),
 "C10": dict(level="proof",
   text="Postconditions over decoded values on eq/cmp/lt/le/gt/ge (and derived PartialEq/Ord), min, max, clamp (requires min <= max), neg, abs, signum, "
        "copysign, is_* and classify for all operand pairs/triples; results must be one of the inputs or an exact constant; Kani.",
   note=_KANI_NOTE + " clamp's documented precondition min <= max is a `requires`; sign of NaR is left unconstrained for is_sign_*/copysign.",
   assumptions=[]),
 "C12": dict(level="proof",
   text="Posit -> quire -> posit identity for every posit; neg = two's complement of the whole image for every non-NaR state (a superset of the "
        "reachable states); clear; from_bits/to_bits inverse; into_two_posits / into_three_posits = round(s), round(s - p1), round(s - p1 - p2) with "
        "exact subtractions, over all 2^32 / 2^128 states (Q32 split: thorough); Kani.",
   note=_KANI_NOTE + " 'Reachable states' is over-approximated by all non-NaR states.", assumptions=[]),
 "C16": dict(level="proof",
   text="Totality obligations (no postcondition): for every public function of P8E0/P16E1/P32E2 and Q8E0/Q16E1/Q32E2 that is not a todo!() stub, "
        "called with fully symbolic arguments, Kani discharges its generated checks -- arithmetic and shift overflow, index bounds, division by "
        "zero, unwrap, reachable panics -- and the unwinding assertion at the word width (termination of every scan loop); leaf preconditions woven "
        "as kani::requires are asserted at every call site. No overflow obligation failing for any input means the overflow-checked and the "
        "optimised build execute the same operations on the same values, hence identical bits.",
   note=_KANI_NOTE + " Not under contract here: P32E2 sleef elementary functions (quire-fused kernels; C15), P16 elementary functions (covered by "
        "the C11 obligations in the thorough tier), generic PxE1/PxE2 (C13/C14), linalg, simba/approx glue; P32E2 rem/div_euclid/rem_euclid (they inline the monolithic divider: obligation exists as tier 'deep', does not close in an hour; their parts add/sub/mul/div/trunc are covered). clamp(min > max) is a known finding (D9).",
   assumptions=["build-profile independence is inferred from the absence of overflow/panic obligations; the two profiles are not compared bit for bit by the verifier",
                "todo!() stubs are recognised from the source (grep) and excluded"]),
 "C17": dict(level="proof",
   text="Forwarder contracts: every operator trait, op-assign form, num_traits impl (Zero, One, Signed, Float, FloatConst, Bounded, FromPrimitive, "
        "ToPrimitive, NumCast), Quire/AssociatedQuire method, tuple/array quire spelling and type alias is proved equal to the corresponding inherent "
        "operation for every input, with the heavy inherent method replaced by an argument-order-sensitive tag stub (caller checked against the "
        "callee's interface, not its body); cheap targets are compared directly.",
   note=_KANI_NOTE + " Tag stubs are hand-written kani::stub replacements (variant B of the weave). Num::from_str_radix is not covered (std string parsing).",
   assumptions=["Num::from_str_radix forwards to f64::from_str_radix (std, not modelled)"]),
 "C19": dict(level="proof",
   text="Contract on P16E1::sub_one (requires x < 2^18; ensures real and 0 <= p < 1) and on the three Distribution::sample impls with a symbolic RngCore "
        "(every call returns an arbitrary word = all RNG streams). P8E0 runs through the real rand 0.8 code unconditionally; for P16E1/P32E2 the "
        "streams are restricted to those whose draws pass rand's sample_single acceptance test at once (bounds the rejection loop; the returned value "
        "depends on the accepted draw only), and the body is additionally proved for every value gen_range may return.",
   note=_KANI_NOTE + " rand 0.8.5 as pinned in Cargo.lock; assumption: gen_range returns a value in [low, high) computed from the accepted draw only.",
   assumptions=["rand::Rng::gen_range(low..high) returns low <= v < high (its rejection loop is cut after the first accepted draw)"]),
 "C11": dict(level="proof",
   text="Contract `f(x).bits == TABLE_f[x]` on P16E1 exp, exp2, ln, log2, sin_pi, cos_pi, tan_pi, asin_pi, acos_pi, atan_pi and P8E0 exp, ln for every "
        "input, where TABLE_f is the correctly rounded result decided with rigorous interval arithmetic (mpmath iv, Ziv refinement against the "
        "(n+1)-bit midpoints; exact cases by Lindemann-Weierstrass/Niven handled separately; regenerated by setup_cmd). Thorough tier: Kani proves each of the "
        "twelve obligations over the whole input domain. Quick tier: the P8 obligations by Kani, the ten P16 obligations by exhaustive native "
        "evaluation of the same contract on all 65536 inputs (enumeration, labelled as such).",
   note=_KANI_NOTE + " Oracle trusted: mpmath 1.3 interval arithmetic (iv.exp/log/sin/cos/tan/pi) and the exact-case list; tables are independent of /repo.",
   assumptions=["mpmath interval enclosures are rigorous", "quick tier decides the P16 obligations by exhaustive native evaluation, not by the verifier"]),
 "C13": dict(level="proof",
   text="The C01/C05/C06/C09 postconditions instantiated at (N, es) for PxE1<N>/PxE2<N>: operands are N-bit patterns left-aligned in u32, the result "
        "must be closed (low 32-N bits zero) and be the posit-rule rounding to N bits; one monomorphic Kani obligation per (es, N, operation). Quick: "
        "N in {2,3,5,8} plus two widths rotated in by VERIF_SEED, all operations that fit the budget. Thorough: every N <= 12 all operations; every N: mul, round, and div (modularly against the divider contract "
        "for N >= 13); N = 32 (es=2) and N = 16 (es=1): add/sub/mul agree bit for bit with P32E2 / P16E1, whose contracts are C01.",
   note=_KANI_NOTE + " Kani cannot make a const generic symbolic: 'every N' is one proof per N. NOT discharged: add/sub for 13 <= N <= 31, mul_add family "
        "and sqrt for N >= 13 (SAT does not close these 64-bit-datapath obligations in hours): tier 'deep', not claimed; a bounded native evaluation "
        "of the same contracts on structured operands (labelled bounded) stands in for those widths.",
   assumptions=["add/sub (13 <= N <= 31), mul_add/mul_sub/sub_product and sqrt (N >= 13) are not discharged by the verifier; bounded native sampling only"]),
 "C14": dict(level="proof",
   text="The C02/C03/C07/C08/C04 postconditions instantiated per width: fixed <-> generic posit conversions, generic <-> generic (other exponent size), "
        "to_f32/to_f64, integer <-> generic posit, Q32E2 -> PxE2<N> (all 2^512 states) and PxE2<N> -> Q32E2; one Kani obligation per (es, N[, M], function). "
        "Quick: N in {3, 8, 32} plus two widths rotated in by VERIF_SEED; thorough: every N (pairs: M in {2,5,8,16,32}).",
   note=_KANI_NOTE + " from_f32/from_f64 of the generic types loop on f64 values (out of the verifier's reach): bounded native evaluation only (known finding D18)."
        " Known findings D16 (integer -> generic) and D18 (float -> generic, bounded evaluation) are listed at whole-obligation granularity.",
   assumptions=["PxE1/PxE2::from_f32/from_f64 are not verified (float loops)", "generic->generic pairs are checked for source widths M in {2,5,8,16,32} only"]),
 "C18": dict(level="proof",
   text="Polynom/Poly are parametric in the posit type: they only use `*`, the quire `+= (a, b)`, `init` and the rounding `into()`. For each of "
        "P8E0, P16E1, P32E2 these three operations are replaced by tag functions (order-sensitive product, COMMUTATIVE accumulation, injective rounding) "
        "and every poly1..poly18, poly3a, poly4a is proved equal, for all x and all coefficients, to the documented construction written independently "
        "(one quire stage for degree <= 4, otherwise the leading coefficients first and the rounded value as leading coefficient of the outer stage; "
        "x^2 = x*x, x^3 = x^2*x, x^4 = x^2*x^2). What the three operations compute is carried by the C01 (mul) and C04 (fdp exact, to_posit rounds once) contracts.",
   note=_KANI_NOTE + " The meaning of polyN as 'round(sum c_i * pow_i)' is the composition of this wiring proof with the C01/C04 contracts (caller checked "
        "against callee contracts, not bodies). Coefficient types other than Self (arrays) are not covered.",
   assumptions=["composition with C01 (mul) and C04 (fdp, to_posit) contracts is by the modular argument, not re-proved monolithically",
                "Polynom<[P; k]> (array-valued coefficients) is not covered"]),
 "C15": dict(not_applicable="contract-based deductive verification cannot decide the ULP half: the bound is against transcendental functions (no theory in "
        "CBMC/Z3/Verus; a 2^32-entry reference table cannot be indexed symbolically) and the kernels are chains of 512-bit quire accumulations whose "
        "error analysis is a research-grade proof per function; the domain-guard half alone is not the property. See DESIGN.md section 9."),
}
