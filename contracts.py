"""Contract table: which real functions of /repo carry which woven contract attributes, and which
harness modules are attached where.  Pure data, read by bin/weave.py and bin/check."""

S = "crate::__vspec"

def _b(t):  # bits of a posit-typed expression as u64
    return f"({t}).to_bits() as u64"

CONTRACTS = []

def C(fn, file, anchor, requires=(), ensures=(), **kw):
    CONTRACTS.append(dict(fn=fn, file=file, anchor=anchor, requires=list(requires), ensures=list(ensures), **kw))

# ---- P8E0 -------------------------------------------------------------------------------------
C("P8E0::mul", "src/p8e0/ops.rs", r"pub const fn mul\(self, other: Self\) -> Self",
  ensures=[f"|r: &Self| {S}::mul_ok({_b('self')}, {_b('other')}, {_b('r')}, 8, 0)"])

# (repo file to append `mod` to, harness file under /verif/harness)
MODULES = [
    ("src/lib.rs", "top.rs"),
]
