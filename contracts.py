"""Contract table: which real functions of /repo carry which woven contract attributes, and which
harness modules are attached where.  Pure data, read by bin/weave.py and bin/check."""

S = "crate::__vspec"

def _b(t):  # bits of a posit-typed expression as u64
    return f"({t}).to_bits() as u64"

CONTRACTS = []

def C(fn, file, anchor, requires=(), ensures=(), **kw):
    CONTRACTS.append(dict(fn=fn, file=file, anchor=anchor, requires=list(requires), ensures=list(ensures), **kw))

# ---- P8E0 -------------------------------------------------------------------------------------
C("P8E0::mul", "src/p8e0/ops.rs", r"pub const fn mul\(self, other: Self\) -> Self",
  ensures=[f"|r: &Self| {S}::mul_ok({_b('self')}, {_b('other')}, {_b('r')}, 8, 0)"])

# ---- integer dividers (crate root) ---------------------------------------------------------------
for _f, _t in (("div", "i32"), ("lldiv", "i64")):
    C(f"crate::{_f}", "src/lib.rs", rf"^const fn {_f}\(numer: {_t}, denom: {_t}\)",
      requires=["numer >= 0 && denom > 0"],
      ensures=[f"|r: &({_t}, {_t})| r.0 == numer / denom && r.1 == numer % denom"],
      stubbed_in_b=True)

# ---- decode / encode leaves ------------------------------------------------------------------------
for _T, _f, _u, _n, _es in (("P8E0", "src/p8e0.rs", "u8", 8, 0), ("P16E1", "src/p16e1.rs", "u16", 16, 1), ("P32E2", "src/p32e2.rs", "u32", 32, 2)):
    C(f"{_T}::separate_bits_tmp", _f, rf"pub\(crate\) const fn separate_bits_tmp\(bits: {_u}\)",
      requires=[f"bits != 0 && (bits as u64) < {S}::nar({_n})"],
      ensures=[f"|r: &(i8, {_u})| {S}::septmp_ok(bits as u64, r.0 as i32, r.1 as u64, {_n}, {_es})"])
    C(f"{_T}::calculate_regime", _f, r"pub\(crate\) const fn calculate_regime\(k: i8\)",
      requires=["k != i8::MIN && k != i8::MAX"],
      ensures=[f"|r: &({_u}, bool, u32)| {S}::regime_ok(k as i32, r.0 as u64, r.1, r.2, {_n})"])

# (repo file to append `mod` to, harness file under /verif/harness).  Harness files not listed here are
# attached to the crate root (src/lib.rs): they only need crate-visible items.
_SPECIAL = {
    "g_q8.rs": "src/quire8.rs",
    "g_q16.rs": "src/quire16.rs",
    "g_q32.rs": "src/quire32.rs",
}
import glob as _glob, os as _os
MODULES = []
for _p in sorted(_glob.glob(_os.path.join(_os.path.dirname(_os.path.abspath(__file__)), "harness", "*.rs"))):
    _f = _os.path.basename(_p)
    MODULES.append((_SPECIAL.get(_f, "src/lib.rs"), _f))

PROPERTY_META = {}
