use super::*;
use crate::vspec::*;
#[kani::proof]
#[kani::unwind(34)]
fn q8_to_posit() {
    let bits: u32 = kani::any();
    let q = Q8E0::from_bits(bits);
    let r = q.to_posit().to_bits() as u64;
    if bits == 0 { assert!(r == 0); }
    else if bits == 1u32 << 31 { assert!(r == 0x80); }
    else {
        let neg = bits >> 31 == 1;
        let mag = if neg { bits.wrapping_neg() } else { bits };
        assert!(is_rounded(r, 8, 0, neg, |m, e| cmp_dy(mag as u128, -12, m as u128, e)));
    }
}
#[kani::proof]
#[kani::unwind(34)]
fn q8_fdp_step() {
    let bits: u32 = kani::any();
    let a: u8 = kani::any();
    let b: u8 = kani::any();
    let plus: bool = kani::any();
    let mut q = Q8E0::from_bits(bits);
    ops::fdp(&mut q, a, b, plus);
    let nar = 1u32 << 31;
    if bits == nar || a == 0x80 || b == 0x80 { assert!(q.to_bits() == nar); }
    else if a == 0 || b == 0 { assert!(q.to_bits() == bits); }
    else {
        let (mag, neg) = prod_fixed_u128(a as u64, b as u64, 8, 0, 12).unwrap();
        let delta = if neg == plus { (mag as u32).wrapping_neg() } else { mag as u32 };
        let (sum, ovf) = (bits as i32).overflowing_add(delta as i32);
        if !ovf && sum as u32 != nar { assert!(q.to_bits() == sum as u32); }
    }
}
#[kani::proof]
#[kani::unwind(34)]
fn q8_roundtrip() {
    let a: u8 = kani::any();
    let q = Q8E0::from(crate::P8E0::from_bits(a));
    assert!(q.to_posit().to_bits() == a);
}
