use softposit::vspec::*;
use softposit::*;
pub fn sqrt_ok(a: u64, r: u64, n: u32, es: u32) -> bool {
    match decode(a, n, es) {
        Dec::NaR => r == nar(n),
        Dec::Zero => r == 0,
        Dec::Real { neg: true, .. } => r == nar(n),
        Dec::Real { neg: false, m: ma, e: ea } => {
            is_rounded(r, n, es, false, |m, e| cmp_dy(ma as u128, ea, (m as u128) * (m as u128), 2 * e))
        }
    }
}
fn main() {
    let t0 = std::time::Instant::now();
    let nthreads = 16u64;
    let hs: Vec<_> = (0..nthreads).map(|t| std::thread::spawn(move || {
        let mut bad = 0u64; let mut first = None;
        let lo = t * (1u64 << 32) / nthreads; let hi = (t + 1) * (1u64 << 32) / nthreads;
        for a in lo..hi {
            let r = P32E2::from_bits(a as u32).sqrt().to_bits() as u64;
            if !sqrt_ok(a, r, 32, 2) { bad += 1; if first.is_none() { first = Some(a); } }
        }
        (bad, first)
    })).collect();
    let mut bad = 0; let mut first = None;
    for h in hs { let (b, f) = h.join().unwrap(); bad += b; if first.is_none() { first = f; } }
    println!("P32 sqrt exhaustive: bad={bad} first={first:x?} time={:?}", t0.elapsed());
}
