use super::*;
use crate::vspec::*;
use core::cmp::Ordering;
#[kani::proof]
#[kani::unwind(130)]
fn q16_to_posit() {
    let bits: u128 = kani::any();
    let q = Q16E1::from_bits(bits);
    let r = q.to_posit().to_bits() as u64;
    if bits == 0 { assert!(r == 0); }
    else if bits == 1u128 << 127 { assert!(r == 0x8000); }
    else {
        let neg = bits >> 127 == 1;
        let mag = if neg { bits.wrapping_neg() } else { bits };
        assert!(is_rounded(r, 16, 1, neg, |m, e| cmp_dy(mag, -56, m as u128, e)));
    }
}

#[kani::proof]
#[kani::unwind(130)]
fn q16_into_two() {
    let bits: u128 = kani::any();
    kani::assume(bits != 1u128 << 127);
    let q = Q16E1::from_bits(bits);
    let (p1, p2) = q.into_two_posits();
    let r1 = p1.to_bits() as u64;
    let r2 = p2.to_bits() as u64;
    // p1 = RN(s)
    if bits == 0 { assert!(r1 == 0 && r2 == 0); return; }
    let neg = bits >> 127 == 1;
    let mag = if neg { bits.wrapping_neg() } else { bits };
    assert!(is_rounded(r1, 16, 1, neg, |m, e| cmp_dy(mag, -56, m as u128, e)));
    // s - p1 exactly, as a 128-bit two's complement fixed point with 56 fraction bits
    let d1: i128 = match decode(r1, 16, 1) {
        Dec::Real { neg: n1, m, e } => {
            let sh = e + 56;
            let v = if sh >= 0 { (m as u128) << sh } else { (m as u128) >> (-sh) };
            if n1 { -(v as i128) } else { v as i128 }
        }
        _ => 0,
    };
    let (rest, ovf) = (bits as i128).overflowing_sub(d1);
    if ovf || rest as u128 == 1u128 << 127 { return; }
    if rest == 0 { assert!(r2 == 0); return; }
    let rneg = rest < 0;
    let rmag = rest.unsigned_abs();
    assert!(is_rounded(r2, 16, 1, rneg, |m, e| cmp_dy(rmag, -56, m as u128, e)));
}
