
use crate::vspec::*;
/// separate_bits(bits) = (k, 0x80|frac7) where value = 2^k * (0x80|frac)/128
pub fn sepbits8_ok(bits: u8, k: i8, f: u8) -> bool {
    let (m, e) = decode_pos(bits as u64, 8, 0);
    // m in [2^32,2^33), value = m*2^e ; code: value = f * 2^(k-7), f in [0x80,0xff]
    f >= 0x80 && cmp_dy(m as u128, e, f as u128, k as i32 - 7) == core::cmp::Ordering::Equal
}
use crate::*;
#[kani::proof]
#[kani::unwind(33)]
fn p32_add2_mono() {
    let a: u32 = kani::any();
    let b: u32 = kani::any();
    let r = P32E2::from_bits(a).add(P32E2::from_bits(b));
    assert!(add_ok2(a as u64, b as u64, r.to_bits() as u64, 32, 2));
}
#[kani::proof]
#[kani::unwind(33)]
fn p32_add2_same() {
    let a: u32 = kani::any();
    let b: u32 = kani::any();
    kani::assume((a ^ b) >> 31 == 0);
    let r = P32E2::from_bits(a).add(P32E2::from_bits(b));
    assert!(add_ok2(a as u64, b as u64, r.to_bits() as u64, 32, 2));
}
#[kani::proof]
#[kani::unwind(33)]
fn p32_add2_diff() {
    let a: u32 = kani::any();
    let b: u32 = kani::any();
    kani::assume((a ^ b) >> 31 == 1);
    let r = P32E2::from_bits(a).add(P32E2::from_bits(b));
    assert!(add_ok2(a as u64, b as u64, r.to_bits() as u64, 32, 2));
}
#[kani::proof]
#[kani::unwind(17)]
fn p16_add2_mono() {
    let a: u16 = kani::any();
    let b: u16 = kani::any();
    let r = P16E1::from_bits(a).add(P16E1::from_bits(b));
    assert!(add_ok2(a as u64, b as u64, r.to_bits() as u64, 16, 1));
}
