//! free term algebra instance of Poly/Polynom (prototype)
use crate::{AssociatedQuire, Quire};
use core::ops::{AddAssign, Mul};

#[derive(Clone, Debug, PartialEq)]
pub enum Term {
    Var(&'static str, usize),
    One,
    Mul(usize, usize),       // rounded product of two posit terms
    Round(Vec<(usize, usize)>), // round( sum of exact products ) in accumulation order
}
static mut ARENA: Vec<Term> = Vec::new();
fn push(t: Term) -> usize { unsafe { let a = &mut *core::ptr::addr_of_mut!(ARENA); a.push(t); a.len() - 1 } }
pub fn get(i: usize) -> Term { unsafe { (&*core::ptr::addr_of!(ARENA))[i].clone() } }

#[derive(Clone, Copy, Debug, PartialEq)]
pub struct Sym(pub usize);
pub fn var(name: &'static str, i: usize) -> Sym { Sym(push(Term::Var(name, i))) }

pub struct SymQ(Vec<(usize, usize)>);

impl Mul for Sym { type Output = Sym; fn mul(self, o: Sym) -> Sym { Sym(push(Term::Mul(self.0, o.0))) } }
impl num_traits::One for Sym { fn one() -> Self { Sym(push(Term::One)) } }
impl AssociatedQuire<Sym> for Sym { type Q = SymQ; }
impl From<SymQ> for Sym { fn from(q: SymQ) -> Sym { Sym(push(Term::Round(q.0))) } }
impl AddAssign<(Sym, Sym)> for SymQ { fn add_assign(&mut self, r: (Sym, Sym)) { self.0.push(((r.0).0, (r.1).0)); } }
impl Quire<Sym> for SymQ {
    type Bits = ();
    fn init() -> Self { SymQ(Vec::new()) }
    fn from_posit(_: Sym) -> Self { unimplemented!() }
    fn to_posit(&self) -> Sym { unimplemented!() }
    fn from_bits(_: ()) -> Self { unimplemented!() }
    fn to_bits(&self) {}
    fn is_zero(&self) -> bool { unimplemented!() }
    fn is_nar(&self) -> bool { unimplemented!() }
    fn add_product(&mut self, _: Sym, _: Sym) { unimplemented!() }
    fn sub_product(&mut self, _: Sym, _: Sym) { unimplemented!() }
    fn clear(&mut self) { unimplemented!() }
    fn neg(&mut self) { unimplemented!() }
}
impl crate::polynom::poly::Poly<Sym> for Sym {}
impl crate::Polynom<Sym> for Sym {}

pub fn show(i: usize) -> String {
    match get(i) {
        Term::Var(n, k) => format!("{n}{k}"),
        Term::One => "1".into(),
        Term::Mul(a, b) => format!("({}*{})", show(a), show(b)),
        Term::Round(v) => format!("R[{}]", v.iter().map(|(a, b)| format!("{}.{}", show(*a), show(*b))).collect::<Vec<_>>().join(" + ")),
    }
}
pub fn demo() {
    use crate::Polynom;
    let x = var("x", 0);
    let c: [Sym; 6] = [var("c", 0), var("c", 1), var("c", 2), var("c", 3), var("c", 4), var("c", 5)];
    println!("poly5 = {}", show(x.poly5(&c).0));
    let c4: [Sym; 4] = [c[0], c[1], c[2], c[3]];
    println!("poly3 = {}", show(x.poly3(&c4).0));
    println!("poly3a = {}", show(x.poly3a(&c4).0));
}
