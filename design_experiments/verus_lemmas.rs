use vstd::prelude::*;
verus! {

/// From the definition of / and % on non-negative operands to the comparisons used by the modular div proof.
pub proof fn lemma_quotient(n: int, d: int, q: int, r: int, x: int)
    requires d > 0, n == q * d + r, 0 <= r < d,
    ensures
        (n < x * d) <==> (q < x),
        (n == x * d) <==> (q == x && r == 0),
        (n > x * d) <==> (q > x || (q == x && r > 0)),
{
    assert(n - x * d == (q - x) * d + r) by (nonlinear_arith) requires n == q * d + r;
    if q < x {
        assert((q - x) * d <= -d) by (nonlinear_arith) requires q - x <= -1, d > 0;
    } else if q > x {
        assert((q - x) * d >= d) by (nonlinear_arith) requires q - x >= 1, d > 0;
    } else {
        assert((q - x) * d == 0) by (nonlinear_arith) requires q == x;
    }
}

/// midpoint finer than the quotient unit by 2^s (p = 2^s >= 1): V*p = q*p + (r/d)*p lies in [q*p, (q+1)*p)
pub proof fn lemma_quotient_fine(n: int, d: int, q: int, r: int, p: int, m: int)
    requires d > 0, p >= 1, n == q * d + r, 0 <= r < d,
    ensures
        q * p > m ==> n * p > m * d,
        (q * p == m && r > 0) ==> n * p > m * d,
        (q * p == m && r == 0) ==> n * p == m * d,
        (q + 1) * p <= m ==> n * p < m * d,
{
    assert(n * p == q * p * d + r * p) by (nonlinear_arith) requires n == q * d + r;
    assert(0 <= r * p) by (nonlinear_arith) requires r >= 0, p >= 1;
    assert(r * p < d * p) by (nonlinear_arith) requires r < d, p >= 1;
    if q * p > m {
        assert(q * p * d >= (m + 1) * d) by (nonlinear_arith) requires q * p >= m + 1, d > 0;
        assert((m + 1) * d > m * d) by (nonlinear_arith) requires d > 0;
    }
    if q * p == m {
        assert(q * p * d == m * d) by (nonlinear_arith) requires q * p == m;
        if r > 0 { assert(r * p > 0) by (nonlinear_arith) requires r > 0, p >= 1; }
        if r == 0 { assert(r * p == 0) by (nonlinear_arith) requires r == 0; }
    }
    if (q + 1) * p <= m {
        assert(q * p * d + d * p == (q + 1) * p * d) by (nonlinear_arith);
        assert((q + 1) * p * d <= m * d) by (nonlinear_arith) requires (q + 1) * p <= m, d > 0;
    }
}

/// tiny-addend lemma behind cmp_sum: A = ma*u, M = mm*w with u,w powers of two (u = 2^eA etc.), written
/// over a common grid g: if both A and M are multiples of g and 0 < B < g then the order of A +/- B vs M
/// is the order of A vs M unless A == M.
pub proof fn lemma_tiny_addend(a: int, m: int, b: int, g: int, ka: int, km: int)
    requires g > 0, a == ka * g, m == km * g, 0 < b < g,
    ensures
        a < m ==> a + b < m,
        a > m ==> a - b > m,
        a < m ==> a - b < m,
        a > m ==> a + b > m,
{
    if a < m {
        assert(ka < km) by (nonlinear_arith) requires ka * g < km * g, g > 0;
        assert(km * g - ka * g >= g) by (nonlinear_arith) requires ka + 1 <= km, g > 0;
    }
    if a > m {
        assert(ka > km) by (nonlinear_arith) requires ka * g > km * g, g > 0;
        assert(ka * g - km * g >= g) by (nonlinear_arith) requires km + 1 <= ka, g > 0;
    }
}

} // verus!
fn main() {}
