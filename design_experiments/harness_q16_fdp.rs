use super::*;
use crate::vspec::*;
use crate::P16E1;

#[kani::proof]
#[kani::unwind(17)]
fn q16_fdp_step() {
    let bits: u128 = kani::any();
    let a: u16 = kani::any();
    let b: u16 = kani::any();
    let plus: bool = kani::any();
    let mut q = Q16E1::from_bits(bits);
    ops::fdp(&mut q, a, b, plus);
    let nar = 1u128 << 127;
    if bits == nar || a == 0x8000 || b == 0x8000 {
        assert!(q.to_bits() == nar);
    } else if a == 0 || b == 0 {
        assert!(q.to_bits() == bits);
    } else {
        let (mag, neg) = prod_fixed_u128(a as u64, b as u64, 16, 1, 56).unwrap();
        let delta = if neg == plus { mag.wrapping_neg() } else { mag };
        // in range: signed addition does not overflow and does not hit the NaR pattern
        let (sum, ovf) = (bits as i128).overflowing_add(delta as i128);
        if !ovf && sum as u128 != nar {
            assert!(q.to_bits() == sum as u128);
        }
    }
}
