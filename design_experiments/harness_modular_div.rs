use crate::vspec::*;
use crate::*;
use core::cmp::Ordering;
pub fn sepbits8_ok(bits: u8, k: i8, f: u8) -> bool {
    let (m, e) = decode_pos(bits as u64, 8, 0);
    f >= 0x80 && cmp_dy(m as u128, e, f as u128, k as i32 - 7) == core::cmp::Ordering::Equal
}
/// numer = q*denom + r, 0 <= r < denom  (+ derived range facts used by callers)
pub fn div_contract(n: i64, d: i64, q: i64, r: i64) -> bool {
    n == q * d + r && 0 <= r && r < d && q >= 0 && q <= n
}
pub fn lldiv_contract(n: i64, d: i64, q: i64, r: i64) -> bool {
    (n as i128) == (q as i128) * (d as i128) + (r as i128) && 0 <= r && r < d && q >= 0 && q <= n
}

// ---- modular P16 div: crate::div replaced by "any (q, r) the contract allows, recorded in ghost state"
pub static mut G_CALLS: u32 = 0;
pub static mut G_N: i64 = 0;
pub static mut G_D: i64 = 0;
pub static mut G_Q: i64 = 0;
pub static mut G_R: i64 = 0;
pub static mut G_NONINT: bool = false;

pub fn div_havoc(numer: i32, denom: i32) -> (i32, i32) {
    assert!(numer >= 0 && denom > 0); // callee precondition, checked at the call site
    let q: i32 = kani::any();
    let r: i32 = kani::any();
    // consequences of the verified contract that do not need a multiplier:
    kani::assume(0 <= r && r < denom && q >= 0 && q <= numer);
    // range facts implied by n = q*d + r (proved once in c_div_ranges below)
    kani::assume(div_ranges(numer as i64, denom as i64, q as i64));
    unsafe {
        G_CALLS += 1;
        G_N = numer as i64;
        G_D = denom as i64;
        G_Q = q as i64;
        G_R = r as i64;
    }
    (q, r)
}
/// floor(n/d) bracket by powers of two: if 2^a <= n < 2^(a+1) and 2^b <= d < 2^(b+1) then 2^(a-b-1) < q+1 and q < 2^(a-b+1)
pub fn div_ranges(n: i64, d: i64, q: i64) -> bool {
    if n <= 0 || d <= 0 { return true; }
    let a = 63 - n.leading_zeros() as i64;
    let b = 63 - d.leading_zeros() as i64;
    if a < b { return q == 0; }
    let lo = 1i64 << (a - b); // n/d > 2^(a-b-1) => q >= 2^(a-b-1) ... precise: q >= 2^(a-b)/2
    q >= (lo >> 1) && q < (lo << 1)
}

#[kani::proof]
#[kani::unwind(17)]
#[kani::stub(crate::div, div_havoc)]
fn p16_div_modular() {
    let a: u16 = kani::any();
    let b: u16 = kani::any();
    let r = P16E1::from_bits(a).div(P16E1::from_bits(b)).to_bits() as u64;
    match (decode(a as u64, 16, 1), decode(b as u64, 16, 1)) {
        (Dec::NaR, _) | (_, Dec::NaR) | (_, Dec::Zero) => assert!(r == 0x8000),
        (Dec::Zero, _) => assert!(r == 0),
        (Dec::Real { neg: na, m: ma, e: ea }, Dec::Real { neg: nb, m: mb, e: eb }) => {
            let (calls, n, d, q, rem) = unsafe { (G_CALLS, G_N, G_D, G_Q, G_R) };
            assert!(calls == 1);
            // (i) the operands handed to the divider are the spec mantissas, bit for bit:
            //     spec m in [2^32,2^33); code: numer = frac_a<<14 with hidden bit 2^28, denom hidden bit 2^14
            assert!(n == ((ma >> 4) as i64) && (ma & 0xf) == 0);
            assert!(d == ((mb >> 18) as i64) && (mb & 0x3ffff) == 0);
            // so A/B = (n/d) * 2^(ea+4 - eb-18) = (q + rem/d) * 2^E
            let e0 = (ea + 4) - (eb + 18);
            // (ii) the result is the posit rounding of (q + rem/d)*2^E0, using only integer comparisons with q
            let ok = is_rounded(r, 16, 1, na ^ nb, |m, e| {
                // midpoint m*2^e as an integer multiple of 2^E0 (must be integral: quotient has more bits than any midpoint)
                let sh = e - e0;
                let qq = q as u128;
                if sh >= 0 {
                    if sh > 60 { return Ordering::Less; }
                    let x = (m as u128) << sh;
                    if qq < x { Ordering::Less } else if qq > x { Ordering::Greater } else if rem != 0 { Ordering::Greater } else { Ordering::Equal }
                } else {
                    let s = (-sh) as u32;
                    if s >= 64 { return Ordering::Greater; }
                    let qs = qq << s;
                    let mm = m as u128;
                    if qs > mm { Ordering::Greater }
                    else if qs == mm { if rem != 0 { Ordering::Greater } else { Ordering::Equal } }
                    else if qs + (1u128 << s) <= mm { Ordering::Less }
                    else { unsafe { G_NONINT = true; } Ordering::Less }
                }
            });
            assert!(ok);
            assert!(unsafe { !G_NONINT });
        }
    }
}
#[kani::proof]
fn c_div_ranges() {
    // the range facts assumed by div_havoc follow from the contract (no repo code involved)
    let n: i32 = kani::any();
    let d: i32 = kani::any();
    kani::assume(n >= 0 && d > 0);
    let q = n / d;
    assert!(div_ranges(n as i64, d as i64, q as i64));
}

pub fn lldiv_havoc(numer: i64, denom: i64) -> (i64, i64) {
    assert!(numer >= 0 && denom > 0);
    let q: i64 = kani::any();
    let r: i64 = kani::any();
    kani::assume(0 <= r && r < denom && q >= 0 && q <= numer);
    kani::assume(div_ranges(numer, denom, q));
    unsafe {
        G_CALLS += 1;
        G_N = numer;
        G_D = denom;
        G_Q = q;
        G_R = r;
    }
    (q, r)
}

fn cmp_q(q: i64, rem: i64, e0: i32, m: u64, e: i32) -> Ordering {
    let sh = e - e0;
    let qq = q as u128;
    if sh >= 0 {
        if sh > 60 { return Ordering::Less; }
        let x = (m as u128) << sh;
        if qq < x { Ordering::Less } else if qq > x { Ordering::Greater } else if rem != 0 { Ordering::Greater } else { Ordering::Equal }
    } else {
        let s = (-sh) as u32;
        if s >= 64 { return Ordering::Greater; }
        let qs = qq << s;
        let mm = m as u128;
        if qs > mm { Ordering::Greater }
        else if qs == mm { if rem != 0 { Ordering::Greater } else { Ordering::Equal } }
        else if qs + (1u128 << s) <= mm { Ordering::Less }
        else { unsafe { G_NONINT = true; } Ordering::Less }
    }
}

#[kani::proof]
#[kani::unwind(33)]
#[kani::stub(crate::lldiv, lldiv_havoc)]
fn p32_div_modular() {
    let a: u32 = kani::any();
    let b: u32 = kani::any();
    let r = P32E2::from_bits(a).div(P32E2::from_bits(b)).to_bits() as u64;
    match (decode(a as u64, 32, 2), decode(b as u64, 32, 2)) {
        (Dec::NaR, _) | (_, Dec::NaR) | (_, Dec::Zero) => assert!(r == 0x8000_0000),
        (Dec::Zero, _) => assert!(r == 0),
        (Dec::Real { neg: na, m: ma, e: ea }, Dec::Real { neg: nb, m: mb, e: eb }) => {
            let (calls, n, d, q, rem) = unsafe { (G_CALLS, G_N, G_D, G_Q, G_R) };
            assert!(calls == 1);
            assert!(n == ((ma as i64) << 28));
            assert!(d == ((mb >> 2) as i64) && (mb & 3) == 0);
            let e0 = ea - eb - 30;
            let ok = is_rounded(r, 32, 2, na ^ nb, |m, e| cmp_q(q, rem, e0, m, e));
            assert!(ok);
            assert!(unsafe { !G_NONINT });
        }
    }
}
#[kani::proof]
fn c_lldiv_ranges() {
    let n: i64 = kani::any();
    let d: i64 = kani::any();
    kani::assume(n >= 0 && d > 0);
    let q = n / d;
    assert!(div_ranges(n, d, q));
}
