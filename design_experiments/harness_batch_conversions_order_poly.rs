use crate::vspec::*;
use crate::*;
pub fn sepbits8_ok(bits: u8, k: i8, f: u8) -> bool {
    let (m, e) = decode_pos(bits as u64, 8, 0);
    f >= 0x80 && cmp_dy(m as u128, e, f as u128, k as i32 - 7) == core::cmp::Ordering::Equal
}
struct SymRng;
impl rand::RngCore for SymRng {
    fn next_u32(&mut self) -> u32 { kani::any() }
    fn next_u64(&mut self) -> u64 { kani::any() }
    fn fill_bytes(&mut self, dest: &mut [u8]) { for b in dest.iter_mut() { *b = kani::any(); } }
    fn try_fill_bytes(&mut self, dest: &mut [u8]) -> Result<(), rand::Error> { self.fill_bytes(dest); Ok(()) }
}
#[kani::proof]
#[kani::unwind(3)]
fn p8_sample() {
    use rand::distributions::{Distribution, Standard};
    let mut rng = SymRng;
    let p: P8E0 = Standard.sample(&mut rng);
    assert!(p.to_bits() < 0x40);
}

use core::cmp::Ordering;
/// real-number order with NaR below everything and equal only to itself
pub fn cmp_val(a: u64, b: u64, n: u32, es: u32) -> Ordering {
    match (decode(a, n, es), decode(b, n, es)) {
        (Dec::NaR, Dec::NaR) => Ordering::Equal,
        (Dec::NaR, _) => Ordering::Less,
        (_, Dec::NaR) => Ordering::Greater,
        (x, y) => {
            let sx = match x { Dec::Zero => 0, Dec::Real { neg: true, .. } => -1, _ => 1 };
            let sy = match y { Dec::Zero => 0, Dec::Real { neg: true, .. } => -1, _ => 1 };
            if sx != sy { return if sx < sy { Ordering::Less } else { Ordering::Greater }; }
            match (x, y) {
                (Dec::Real { m: ma, e: ea, neg }, Dec::Real { m: mb, e: eb, .. }) => {
                    let o = cmp_dy(ma as u128, ea, mb as u128, eb);
                    if neg { o.reverse() } else { o }
                }
                _ => Ordering::Equal,
            }
        }
    }
}
pub fn min_ok(a: u64, b: u64, r: u64, n: u32, es: u32) -> bool {
    (r == a || r == b) && cmp_val(r, a, n, es) != Ordering::Greater && cmp_val(r, b, n, es) != Ordering::Greater
}
#[kani::proof_for_contract(P32E2::min)]
fn c_p32_min() { P32E2::from_bits(kani::any()).min(P32E2::from_bits(kani::any())); }
#[kani::proof_for_contract(P8E0::min)]
fn c_p8_min() { P8E0::from_bits(kani::any()).min(P8E0::from_bits(kani::any())); }
#[kani::proof]
fn p32_order_lemma() {
    let a: u32 = kani::any(); let b: u32 = kani::any();
    assert!(cmp_val(a as u64, b as u64, 32, 2) == (a as i32).cmp(&(b as i32)));
    assert!(P32E2::from_bits(a).cmp(P32E2::from_bits(b)) == cmp_val(a as u64, b as u64, 32, 2));
    assert!((P32E2::from_bits(a) < P32E2::from_bits(b)) == (cmp_val(a as u64, b as u64, 32, 2) == Ordering::Less));
}

// ---------- batch: conversions and integer-rounding functions
pub fn from_fbits_ok(neg: bool, ex: i32, fr: u64, fbits: u32, bias: i32, r: u64, n: u32, es: u32) -> bool {
    // ex = raw biased exponent, fr = raw fraction, fbits = fraction width
    let emax = (1 << (if fbits == 52 { 11 } else { 8 })) - 1;
    if ex == emax { return r == nar(n); }
    if ex == 0 && fr == 0 { return r == 0; }
    let (m, e) = if ex == 0 { (fr, 1 - bias - fbits as i32) } else { (fr | (1u64 << fbits), ex - bias - fbits as i32) };
    is_rounded(r, n, es, neg, |mm, ee| cmp_dy(m as u128, e, mm as u128, ee))
}
pub fn from_f32_ok(fb: u32, r: u64, n: u32, es: u32) -> bool {
    from_fbits_ok(fb >> 31 == 1, ((fb >> 23) & 0xff) as i32, (fb & 0x7f_ffff) as u64, 23, 127, r, n, es)
}
pub fn to_f64_ok(p: u64, fb: u64, n: u32, es: u32) -> bool {
    match decode(p, n, es) {
        Dec::NaR => ((fb >> 52) & 0x7ff) == 0x7ff && (fb & 0xf_ffff_ffff_ffff) != 0,
        Dec::Zero => fb == 0,
        Dec::Real { neg, m, e } => {
            let ex = ((fb >> 52) & 0x7ff) as i32;
            let fr = fb & 0xf_ffff_ffff_ffff;
            (fb >> 63 == 1) == neg && ex != 0 && ex != 0x7ff
                && cmp_dy((fr | (1u64 << 52)) as u128, ex - 1075, m as u128, e) == Ordering::Equal
        }
    }
}
pub fn convert_ok(src: u64, n1: u32, es1: u32, r: u64, n2: u32, es2: u32) -> bool {
    match decode(src, n1, es1) {
        Dec::NaR => r == nar(n2),
        Dec::Zero => r == 0,
        Dec::Real { neg, m, e } => is_rounded(r, n2, es2, neg, |mm, ee| cmp_dy(m as u128, e, mm as u128, ee)),
    }
}
#[derive(Clone, Copy, PartialEq)]
pub enum IMode { Round, Floor, Ceil, Trunc }
/// |v| = m*2^e  ->  integer magnitude under the mode (applied to the signed value)
pub fn int_of(neg: bool, m: u64, e: i32, mode: IMode) -> u128 {
    if e >= 0 { return (m as u128) << e; }
    let sh = (-e) as u32;
    let (q, rem, half): (u128, u128, u128) = if sh >= 100 { (0, 1, 2) } else {
        ((m as u128) >> sh, (m as u128) & ((1u128 << sh) - 1), 1u128 << (sh - 1))
    };
    let up = match mode {
        IMode::Trunc => false,
        IMode::Floor => neg && rem != 0,
        IMode::Ceil => !neg && rem != 0,
        IMode::Round => rem > half || (rem == half && (q & 1) == 1),
    };
    if up { q + 1 } else { q }
}
pub fn intfn_ok(p: u64, r: u64, n: u32, es: u32, mode: IMode) -> bool {
    match decode(p, n, es) {
        Dec::NaR => r == nar(n),
        Dec::Zero => r == 0,
        Dec::Real { neg, m, e } => {
            let i = int_of(neg, m, e, mode);
            if i == 0 { return r == 0; }
            match decode(r, n, es) {
                Dec::Real { neg: rn, m: rm, e: re } => rn == neg && cmp_dy(rm as u128, re, i, 0) == Ordering::Equal,
                _ => false,
            }
        }
    }
}
macro_rules! h32 { ($($name:ident: |$a:ident| $body:expr;)*) => {$( #[kani::proof] #[kani::unwind(34)] fn $name() { let $a: u32 = kani::any(); assert!($body); } )*} }
macro_rules! h16 { ($($name:ident: |$a:ident| $body:expr;)*) => {$( #[kani::proof] #[kani::unwind(34)] fn $name() { let $a: u16 = kani::any(); assert!($body); } )*} }
macro_rules! h8 { ($($name:ident: |$a:ident| $body:expr;)*) => {$( #[kani::proof] #[kani::unwind(34)] fn $name() { let $a: u8 = kani::any(); assert!($body); } )*} }
h32! {
    b_p32_from_f32: |x| from_f32_ok(x, P32E2::from_f32(f32::from_bits(x)).to_bits() as u64, 32, 2);
    b_p16_from_f32: |x| from_f32_ok(x, P16E1::from_f32(f32::from_bits(x)).to_bits() as u64, 16, 1);
    b_p8_from_f32: |x| from_f32_ok(x, P8E0::from_f32(f32::from_bits(x)).to_bits() as u64, 8, 0);
    b_p32_to_f64: |x| to_f64_ok(x as u64, P32E2::from_bits(x).to_f64().to_bits(), 32, 2);
    b_p32_rt_f64: |x| P32E2::from_f64(P32E2::from_bits(x).to_f64()).to_bits() == x;
    b_p32_to_p16: |x| convert_ok(x as u64, 32, 2, P16E1::from_p32e2(P32E2::from_bits(x)).to_bits() as u64, 16, 1);
    b_p32_to_p8: |x| convert_ok(x as u64, 32, 2, P8E0::from_p32e2(P32E2::from_bits(x)).to_bits() as u64, 8, 0);
    b_p32_round: |x| intfn_ok(x as u64, P32E2::from_bits(x).round().to_bits() as u64, 32, 2, IMode::Round);
    b_p32_floor: |x| intfn_ok(x as u64, P32E2::from_bits(x).floor().to_bits() as u64, 32, 2, IMode::Floor);
    b_p32_ceil: |x| intfn_ok(x as u64, P32E2::from_bits(x).ceil().to_bits() as u64, 32, 2, IMode::Ceil);
    b_p32_trunc: |x| intfn_ok(x as u64, P32E2::from_bits(x).trunc().to_bits() as u64, 32, 2, IMode::Trunc);
}
h16! {
    b_p16_to_p32: |x| convert_ok(x as u64, 16, 1, P32E2::from_p16e1(P16E1::from_bits(x)).to_bits() as u64, 32, 2);
    b_p16_to_p8: |x| convert_ok(x as u64, 16, 1, P8E0::from_p16e1(P16E1::from_bits(x)).to_bits() as u64, 8, 0);
    b_p16_round: |x| intfn_ok(x as u64, P16E1::from_bits(x).round().to_bits() as u64, 16, 1, IMode::Round);
    b_p16_floor: |x| intfn_ok(x as u64, P16E1::from_bits(x).floor().to_bits() as u64, 16, 1, IMode::Floor);
    b_p16_ceil: |x| intfn_ok(x as u64, P16E1::from_bits(x).ceil().to_bits() as u64, 16, 1, IMode::Ceil);
}
h8! {
    b_p8_to_p16: |x| convert_ok(x as u64, 8, 0, P16E1::from_p8e0(P8E0::from_bits(x)).to_bits() as u64, 16, 1);
    b_p8_to_p32: |x| convert_ok(x as u64, 8, 0, P32E2::from_p8e0(P8E0::from_bits(x)).to_bits() as u64, 32, 2);
    b_p8_round: |x| intfn_ok(x as u64, P8E0::from_bits(x).round().to_bits() as u64, 8, 0, IMode::Round);
    b_p8_floor: |x| intfn_ok(x as u64, P8E0::from_bits(x).floor().to_bits() as u64, 8, 0, IMode::Floor);
    b_p8_ceil: |x| intfn_ok(x as u64, P8E0::from_bits(x).ceil().to_bits() as u64, 8, 0, IMode::Ceil);
}

// C18 (b): P8 poly2 against the exact sum  c0*x^2 + c1*x + c2  with x^2 the rounded product
#[kani::proof]
#[kani::unwind(34)]
fn p8_poly2() {
    use crate::Polynom;
    let x = P8E0::from_bits(kani::any());
    let c = [P8E0::from_bits(kani::any()), P8E0::from_bits(kani::any()), P8E0::from_bits(kani::any())];
    let r = x.poly2(&c).to_bits() as u64;
    let x2 = x.mul(x);
    // exact sum in i64 fixed point with 24 fraction bits (P8 products are multiples of 2^-12... 2^-24 covers all)
    let term = |a: P8E0, b: P8E0| -> Option<i64> {
        match (decode(a.to_bits() as u64, 8, 0), decode(b.to_bits() as u64, 8, 0)) {
            (Dec::NaR, _) | (_, Dec::NaR) => None,
            (Dec::Zero, _) | (_, Dec::Zero) => Some(0),
            (Dec::Real { neg: na, m: ma, e: ea }, Dec::Real { neg: nb, m: mb, e: eb }) => {
                let p = (ma as u128) * (mb as u128);
                let sh = ea + eb + 24;
                let v = if sh >= 0 { p << sh } else { p >> (-sh) } as i64;
                Some(if na ^ nb { -v } else { v })
            }
        }
    };
    let t = [term(P8E0::ONE, c[2]), term(x, c[1]), term(x2, c[0])];
    if t[0].is_none() || t[1].is_none() || t[2].is_none() { assert!(r == 0x80); return; }
    let s = t[0].unwrap() + t[1].unwrap() + t[2].unwrap();
    if s == 0 { assert!(r == 0); return; }
    // quire8 range: |sum| < 2^19
    if s.unsigned_abs() >= (1u64 << (19 + 24)) { return; }
    assert!(is_rounded(r, 8, 0, s < 0, |m, e| cmp_dy(s.unsigned_abs() as u128, -24, m as u128, e)));
}
// C13 agreement PxE2<32> == P32E2 for mul
#[kani::proof]
#[kani::unwind(34)]
fn pxe2_32_mul_agrees() {
    let a: u32 = kani::any();
    let b: u32 = kani::any();
    let r1 = (PxE2::<32>::from_bits(a) * PxE2::<32>::from_bits(b)).to_bits();
    let r2 = P32E2::from_bits(a).mul(P32E2::from_bits(b)).to_bits();
    assert!(r1 == r2);
}
