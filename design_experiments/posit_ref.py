from fractions import Fraction
def decode(bits, n, es):
    mask = (1<<n)-1; bits &= mask
    if bits == 0: return Fraction(0)
    if bits == 1<<(n-1): return None
    neg = bits >> (n-1)
    if neg: bits = (-bits) & mask
    body = bits & ((1<<(n-1))-1)
    s = format(body, '0%db' % (n-1))
    first = s[0]; run = len(s) - len(s.lstrip(first))
    k = run-1 if first=='1' else -run
    rest = s[run+1:]
    e = rest[:es].ljust(es,'0'); f = rest[es:]
    ev = int(e,2) if es else 0
    fv = Fraction(int(f,2), 1<<len(f)) if f else Fraction(0)
    v = Fraction(2)**(k*(1<<es)+ev) * (1+fv)
    return -v if neg else v
def rnd(v, n, es):
    if v == 0: return 0
    neg = v < 0; v = abs(v)
    maxpos = (1<<(n-1))-1
    lo, hi = 1, maxpos
    if v >= decode(maxpos,n,es): r = maxpos
    elif v <= decode(1,n,es): r = 1
    else:
        while hi-lo > 1:
            mid=(lo+hi)//2
            if decode(mid,n,es) <= v: lo=mid
            else: hi=mid
        m = decode(2*lo+1, n+1, es)
        if v < m: r = lo
        elif v > m: r = hi
        else: r = lo if lo%2==0 else hi
    return ((-r) & ((1<<n)-1)) if neg else r
if __name__ == '__main__':
    import sys
    a,b,c = 2096129, 2147477500, 2134900228
    va,vb,vc = decode(a,32,2), decode(b,32,2), decode(c,32,2)
    print(float(va), float(vb), float(vc))
    print(hex(rnd(va*vb+vc,32,2)))
