use super::*;
use crate::vspec::*;

/// little-endian 8x64 two's complement helpers (spec side)
fn place512(p: u128, sh: i32) -> [u64; 8] {
    // p * 2^sh as 512-bit unsigned, little-endian limbs; sh may be negative (then the dropped bits must be zero)
    let mut w = [0u64; 8];
    let mut i = 0;
    while i < 8 {
        let rel = sh - 64 * (i as i32); // limb i holds bits [64i, 64i+64)
        w[i] = if rel >= 64 || rel <= -128 {
            0
        } else if rel >= 0 {
            (p << (rel as u32)) as u64
        } else {
            (p >> ((-rel) as u32)) as u64
        };
        i += 1;
    }
    w
}
fn neg512(a: [u64; 8]) -> [u64; 8] {
    let mut w = [0u64; 8];
    let mut c = true;
    let mut i = 0;
    while i < 8 {
        let (s, c1) = (!a[i]).overflowing_add(c as u64);
        w[i] = s;
        c = c1;
        i += 1;
    }
    w
}
fn add512(a: [u64; 8], b: [u64; 8]) -> [u64; 8] {
    let mut w = [0u64; 8];
    let mut c = false;
    let mut i = 0;
    while i < 8 {
        let (s1, c1) = a[i].overflowing_add(b[i]);
        let (s2, c2) = s1.overflowing_add(c as u64);
        w[i] = s2;
        c = c1 || c2;
        i += 1;
    }
    w
}

#[kani::proof]
#[kani::unwind(34)]
fn q32_fdp_step() {
    let old_be: [u64; 8] = kani::any();
    let a: u32 = kani::any();
    let b: u32 = kani::any();
    let plus: bool = kani::any();
    let mut q = Q32E2::from_bits(old_be);
    ops::fdp(&mut q, a, b, plus);
    let new_be = q.to_bits();
    let old_is_nar = old_be[0] == 0x8000_0000_0000_0000
        && old_be[1] == 0 && old_be[2] == 0 && old_be[3] == 0 && old_be[4] == 0 && old_be[5] == 0 && old_be[6] == 0 && old_be[7] == 0;
    kani::assume(!old_is_nar); // NaR stickiness is a separate (trivial) obligation; is_nar has a known defect (limb 6)
    kani::assume(old_be[6] == 0 || old_be[0] != 0x8000_0000_0000_0000);
    if a == 0x8000_0000 || b == 0x8000_0000 {
        assert!(new_be[0] == 0x8000_0000_0000_0000 && new_be[1] == 0 && new_be[7] == 0);
    } else if a == 0 || b == 0 {
        let mut j = 0;
        while j < 8 { assert!(new_be[j] == old_be[j]); j += 1; }
    } else {
        match (decode(a as u64, 32, 2), decode(b as u64, 32, 2)) {
            (Dec::Real { neg: na, m: ma, e: ea }, Dec::Real { neg: nb, m: mb, e: eb }) => {
                let p = (ma as u128) * (mb as u128);
                let sh = ea + eb + 240;
                let mag = place512(p, sh);
                let neg = (na ^ nb) == plus;
                let delta = if neg { neg512(mag) } else { mag };
                let mut old = [0u64; 8];
                let mut i = 0;
                while i < 8 { old[i] = old_be[7 - i]; i += 1; }
                let sum = add512(old, delta);
                let so = old[7] >> 63; let sd = delta[7] >> 63; let ss = sum[7] >> 63;
                let ovf = so == sd && ss != so;
                let is_nar = sum[7] == 0x8000_0000_0000_0000 && sum[0] == 0 && sum[1] == 0 && sum[2] == 0 && sum[3] == 0 && sum[4] == 0 && sum[5] == 0 && sum[6] == 0;
                // code's buggy is_nar ignores limb 6 (be index 6 == le index 1): stay away from it for this timing experiment
                let near_nar = sum[7] == 0x8000_0000_0000_0000 && sum[0] == 0 && sum[2] == 0 && sum[3] == 0 && sum[4] == 0 && sum[5] == 0 && sum[6] == 0;
                if !ovf && !is_nar && !near_nar {
                    let mut j = 0;
                    while j < 8 { assert!(new_be[7 - j] == sum[j]); j += 1; }
                }
            }
            _ => {}
        }
    }
}
