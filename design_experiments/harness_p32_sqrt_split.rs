use crate::vspec::*;
use crate::*;
use core::cmp::Ordering;
pub fn sepbits8_ok(bits: u8, k: i8, f: u8) -> bool {
    let (m, e) = decode_pos(bits as u64, 8, 0);
    f >= 0x80 && cmp_dy(m as u128, e, f as u128, k as i32 - 7) == core::cmp::Ordering::Equal
}
pub fn sqrt_ok(a: u64, r: u64, n: u32, es: u32) -> bool {
    match decode(a, n, es) {
        Dec::NaR => r == nar(n),
        Dec::Zero => r == 0,
        Dec::Real { neg: true, .. } => r == nar(n),
        Dec::Real { neg: false, m: ma, e: ea } => {
            is_rounded(r, n, es, false, |m, e| cmp_dy(ma as u128, ea, (m as u128) * (m as u128), 2 * e))
        }
    }
}
fn p32_sqrt_part(top: u32) {
    let lo: u32 = kani::any();
    kani::assume(lo < (1 << 27));
    let a = (top << 27) | lo;
    let r = P32E2::from_bits(a).sqrt();
    assert!(sqrt_ok(a as u64, r.to_bits() as u64, 32, 2));
}
macro_rules! sq { ($($n:ident: $t:expr;)*) => {$( #[kani::proof] #[kani::unwind(33)] fn $n() { p32_sqrt_part($t); } )*} }
sq! { p32_sqrt_t0: 0; p32_sqrt_t3: 3; p32_sqrt_t7: 7; p32_sqrt_t8: 8; p32_sqrt_t9: 9; p32_sqrt_t12: 12; p32_sqrt_t15: 15; }
