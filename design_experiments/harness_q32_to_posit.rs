use super::*;
use crate::vspec::*;
use core::cmp::Ordering;

/// compare the 512-bit magnitude `mag` (little-endian limbs, value = mag * 2^-240) with m * 2^e
fn cmp_mag512(mag: &[u64; 8], m: u64, e: i32) -> Ordering {
    // place m*2^(e+240) into 9 little-endian limbs (m < 2^33); bits below 2^-240 are kept as a sticky flag
    let sh = e + 240;
    let mut w = [0u64; 8];
    let mut sticky = false;
    let mut high = false; // m*2^sh does not fit 512 bits
    if sh < 0 {
        let s = (-sh) as u32;
        if s >= 64 { sticky = true; } else {
            w[0] = m >> s;
            sticky = (m & ((1u64 << s) - 1)) != 0;
        }
    } else {
        let limb = (sh / 64) as usize;
        let off = (sh % 64) as u32;
        if limb >= 8 { high = true; } else {
            w[limb] = m << off;
            if off != 0 {
                let hi = m >> (64 - off);
                if limb + 1 < 8 { w[limb + 1] = hi; } else if hi != 0 { high = true; }
            }
        }
    }
    if high { return Ordering::Less; }
    let mut r = Ordering::Equal;
    let mut i = 0;
    while i < 8 {
        if mag[i] != w[i] { r = if mag[i] < w[i] { Ordering::Less } else { Ordering::Greater }; }
        i += 1;
    }
    if r == Ordering::Equal && sticky { Ordering::Less } else { r }
}

#[kani::proof]
#[kani::unwind(66)]
fn q32_to_posit() {
    let be: [u64; 8] = kani::any();
    kani::assume(be[6] == 0 || (be[0] != 0 || be[1] != 0 || be[2] != 0 || be[3] != 0 || be[4] != 0 || be[5] != 0 || be[7] != 0)); // stay clear of D3 (is_zero/is_nar ignore limb 6)
    kani::assume(!(be[0] == 0x8000_0000_0000_0000 && be[1] == 0 && be[2] == 0 && be[3] == 0 && be[4] == 0 && be[5] == 0 && be[7] == 0 && be[6] != 0));
    let q = Q32E2::from_bits(be);
    let r = q.to_posit().to_bits() as u64;
    let mut le = [0u64; 8];
    let mut i = 0;
    while i < 8 { le[i] = be[7 - i]; i += 1; }
    let zero = le[0] == 0 && le[1] == 0 && le[2] == 0 && le[3] == 0 && le[4] == 0 && le[5] == 0 && le[6] == 0 && le[7] == 0;
    let isnar = le[7] == 0x8000_0000_0000_0000 && le[0] == 0 && le[1] == 0 && le[2] == 0 && le[3] == 0 && le[4] == 0 && le[5] == 0 && le[6] == 0;
    if zero { assert!(r == 0); }
    else if isnar { assert!(r == 0x8000_0000); }
    else {
        let neg = le[7] >> 63 == 1;
        let mut mag = le;
        if neg {
            let mut c = true; let mut j = 0;
            while j < 8 { let (s, c1) = (!le[j]).overflowing_add(c as u64); mag[j] = s; c = c1; j += 1; }
        }
        assert!(is_rounded(r, 32, 2, neg, |m, e| cmp_mag512(&mag, m, e)));
    }
}
