use crate::vspec::*;
use crate::*;
pub fn sepbits8_ok(bits: u8, k: i8, f: u8) -> bool {
    let (m, e) = decode_pos(bits as u64, 8, 0);
    f >= 0x80 && cmp_dy(m as u128, e, f as u128, k as i32 - 7) == core::cmp::Ordering::Equal
}
pub fn mul_add_ok(a: u64, b: u64, c: u64, r: u64, n: u32, es: u32) -> bool {
    match (decode(a, n, es), decode(b, n, es), decode(c, n, es)) {
        (Dec::NaR, _, _) | (_, Dec::NaR, _) | (_, _, Dec::NaR) => r == nar(n),
        (Dec::Zero, _, _) | (_, Dec::Zero, _) => r == (c & ((1u64 << n) - 1)),
        (Dec::Real { neg: na, m: ma, e: ea }, Dec::Real { neg: nb, m: mb, e: eb }, dc) => {
            let p = Fx::place((ma as u128) * (mb as u128), ea + eb);
            let pn = na ^ nb;
            let (s, sneg) = match dc {
                Dec::Zero => (p, pn),
                Dec::Real { neg: nc, m: mc, e: ec } => {
                    let fc = Fx::place(mc as u128, ec);
                    if pn == nc { (p.add(&fc), pn) } else {
                        match p.cmp(&fc) {
                            core::cmp::Ordering::Equal => return r == 0,
                            core::cmp::Ordering::Greater => (p.sub(&fc), pn),
                            core::cmp::Ordering::Less => (fc.sub(&p), nc),
                        }
                    }
                }
                Dec::NaR => unreachable!(),
            };
            is_rounded(r, n, es, sneg, |m, e| s.cmp(&Fx::place(m as u128, e)))
        }
    }
}
fn p32_mul_add_part(same: bool) {
    let a: u32 = kani::any();
    let b: u32 = kani::any();
    let c: u32 = kani::any();
    kani::assume(a != 0 && b != 0 && c != 0 && a != 0x8000_0000 && b != 0x8000_0000 && c != 0x8000_0000);
    kani::assume((((a ^ b ^ c) >> 31) == 0) == same);
    let r = P32E2::from_bits(a).mul_add(P32E2::from_bits(b), P32E2::from_bits(c));
    assert!(mul_add_ok(a as u64, b as u64, c as u64, r.to_bits() as u64, 32, 2));
}
#[kani::proof]
#[kani::unwind(65)]
fn p32_mul_add_same() { p32_mul_add_part(true); }
#[kani::proof]
#[kani::unwind(65)]
fn p32_mul_add_diff() { p32_mul_add_part(false); }
