//! Prototype exact posit semantics (Posit Standard 2022) -- independent of the crate's code.
#![allow(dead_code)]
use core::cmp::Ordering;

pub const LIMBS: usize = 3; // 384-bit unsigned fixed point
pub const BIAS: i32 = 176; // bit index of 2^0

#[derive(Clone, Copy, PartialEq, Eq)]
pub struct Fx {
    pub w: [u128; LIMBS], // w[0] least significant
}

impl Fx {
    pub const fn zero() -> Fx {
        Fx { w: [0; LIMBS] }
    }
    /// m * 2^e exactly (caller guarantees it fits: 0 <= e+BIAS, e+BIAS+128 <= 128*LIMBS)
    pub fn place(m: u128, e: i32) -> Fx {
        let s = e + BIAS;
        let mut w = [0u128; LIMBS];
        let mut i = 0;
        while i < LIMBS {
            let rel = s - 128 * (i as i32);
            w[i] = if rel >= 128 || rel <= -128 {
                0
            } else if rel >= 0 {
                m << (rel as u32)
            } else {
                m >> ((-rel) as u32)
            };
            i += 1;
        }
        Fx { w }
    }
    pub fn is_zero(&self) -> bool {
        let mut i = 0;
        let mut z = true;
        while i < LIMBS {
            z = z && self.w[i] == 0;
            i += 1;
        }
        z
    }
    pub fn cmp(&self, o: &Fx) -> Ordering {
        let mut r = Ordering::Equal;
        let mut i = 0;
        while i < LIMBS {
            // from least significant up: later (more significant) limbs override
            if self.w[i] != o.w[i] {
                r = if self.w[i] < o.w[i] { Ordering::Less } else { Ordering::Greater };
            }
            i += 1;
        }
        r
    }
    pub fn add(&self, o: &Fx) -> Fx {
        let mut w = [0u128; LIMBS];
        let mut c = false;
        let mut i = 0;
        while i < LIMBS {
            let (s1, c1) = self.w[i].overflowing_add(o.w[i]);
            let (s2, c2) = s1.overflowing_add(c as u128);
            w[i] = s2;
            c = c1 || c2;
            i += 1;
        }
        Fx { w }
    }
    /// self - o, requires self >= o
    pub fn sub(&self, o: &Fx) -> Fx {
        let mut w = [0u128; LIMBS];
        let mut b = false;
        let mut i = 0;
        while i < LIMBS {
            let (s1, b1) = self.w[i].overflowing_sub(o.w[i]);
            let (s2, b2) = s1.overflowing_sub(b as u128);
            w[i] = s2;
            b = b1 || b2;
            i += 1;
        }
        Fx { w }
    }
}

/// compare m1*2^e1 with m2*2^e2, m1,m2 > 0
pub fn cmp_dy(m1: u128, e1: i32, m2: u128, e2: i32) -> Ordering {
    let l1 = m1.leading_zeros();
    let l2 = m2.leading_zeros();
    let t1 = 127 - (l1 as i32) + e1;
    let t2 = 127 - (l2 as i32) + e2;
    if t1 != t2 {
        return if t1 < t2 { Ordering::Less } else { Ordering::Greater };
    }
    let a = m1 << l1;
    let b = m2 << l2;
    if a < b {
        Ordering::Less
    } else if a > b {
        Ordering::Greater
    } else {
        Ordering::Equal
    }
}

#[derive(Clone, Copy, PartialEq, Eq)]
pub enum Dec {
    Zero,
    NaR,
    /// value = (-1)^neg * m * 2^e, 2^32 <= m < 2^33
    Real { neg: bool, m: u64, e: i32 },
}

/// decode the n-bit posit held in the low n bits of `bits` (2 <= n <= 33, es <= 2)
pub fn decode(bits: u64, n: u32, es: u32) -> Dec {
    let mask = (1u64 << n) - 1;
    let bits = bits & mask;
    if bits == 0 {
        return Dec::Zero;
    }
    if bits == 1u64 << (n - 1) {
        return Dec::NaR;
    }
    let neg = (bits >> (n - 1)) & 1 == 1;
    let mag = if neg { bits.wrapping_neg() & mask } else { bits };
    let (m, e) = decode_pos(mag, n, es);
    Dec::Real { neg, m, e }
}

/// positive n-bit posit magnitude 0 < mag < 2^(n-1)  ->  (m, e), value = m * 2^e, 2^32 <= m < 2^33
pub fn decode_pos(mag: u64, n: u32, es: u32) -> (u64, i32) {
    let y = mag << (65 - n); // the n-1 bits after the sign, left aligned
    let (k, run) = if (y >> 63) == 1 {
        let run = y.leading_ones();
        (run as i32 - 1, run)
    } else {
        let run = y.leading_zeros();
        (-(run as i32), run)
    };
    let rest = if run + 1 >= 64 { 0 } else { y << (run + 1) };
    let exp = if es == 0 { 0 } else { rest >> (64 - es) };
    let frac = rest << es;
    let m = (1u64 << 32) | (frac >> 32);
    let scale = (k << es) + exp as i32;
    (m, scale - 32)
}

/// posit rule: is positive encoding r (n bits, 1..=maxpos) the rounding of the positive real V,
/// where `cmp_v(m, e)` returns the ordering of V relative to m*2^e.
pub fn is_rounded_pos<F: Fn(u64, i32) -> Ordering>(r: u64, n: u32, es: u32, cmp_v: F) -> bool {
    let maxpos = (1u64 << (n - 1)) - 1;
    if r == 0 || r > maxpos {
        return false;
    }
    let lo_ok = r == 1 || {
        let (m, e) = decode_pos(2 * r - 1, n + 1, es);
        match cmp_v(m, e) {
            Ordering::Greater => true,
            Ordering::Equal => r & 1 == 0,
            Ordering::Less => false,
        }
    };
    let hi_ok = r == maxpos || {
        let (m, e) = decode_pos(2 * r + 1, n + 1, es);
        match cmp_v(m, e) {
            Ordering::Less => true,
            Ordering::Equal => r & 1 == 0,
            Ordering::Greater => false,
        }
    };
    lo_ok && hi_ok
}

/// signed version: result bits `r` (n-bit) must be the posit-rule rounding of (-1)^vneg * V, V > 0
pub fn is_rounded<F: Fn(u64, i32) -> Ordering>(r: u64, n: u32, es: u32, vneg: bool, cmp_v: F) -> bool {
    let mask = (1u64 << n) - 1;
    let r = r & mask;
    let rneg = (r >> (n - 1)) & 1 == 1;
    if rneg != vneg {
        return false;
    }
    let mag = if rneg { r.wrapping_neg() & mask } else { r };
    is_rounded_pos(mag, n, es, cmp_v)
}

pub fn nar(n: u32) -> u64 {
    1u64 << (n - 1)
}

/// a*b
pub fn mul_ok(a: u64, b: u64, r: u64, n: u32, es: u32) -> bool {
    match (decode(a, n, es), decode(b, n, es)) {
        (Dec::NaR, _) | (_, Dec::NaR) => r == nar(n),
        (Dec::Zero, _) | (_, Dec::Zero) => r == 0,
        (Dec::Real { neg: na, m: ma, e: ea }, Dec::Real { neg: nb, m: mb, e: eb }) => {
            let p = (ma as u128) * (mb as u128);
            let pe = ea + eb;
            is_rounded(r, n, es, na ^ nb, |m, e| cmp_dy(p, pe, m as u128, e))
        }
    }
}

/// a/b
pub fn div_ok(a: u64, b: u64, r: u64, n: u32, es: u32) -> bool {
    match (decode(a, n, es), decode(b, n, es)) {
        (Dec::NaR, _) | (_, Dec::NaR) | (_, Dec::Zero) => r == nar(n),
        (Dec::Zero, _) => r == 0,
        (Dec::Real { neg: na, m: ma, e: ea }, Dec::Real { neg: nb, m: mb, e: eb }) => {
            // a/b ? mid  <=>  a ? mid*b
            is_rounded(r, n, es, na ^ nb, |m, e| {
                cmp_dy(ma as u128, ea, (m as u128) * (mb as u128), e + eb)
            })
        }
    }
}

/// a+b  (sub: pass b negated)
pub fn add_ok(a: u64, b: u64, r: u64, n: u32, es: u32) -> bool {
    match (decode(a, n, es), decode(b, n, es)) {
        (Dec::NaR, _) | (_, Dec::NaR) => r == nar(n),
        (Dec::Zero, _) => r == (b & ((1u64 << n) - 1)),
        (_, Dec::Zero) => r == (a & ((1u64 << n) - 1)),
        (Dec::Real { neg: na, m: ma, e: ea }, Dec::Real { neg: nb, m: mb, e: eb }) => {
            let fa = Fx::place(ma as u128, ea);
            let fb = Fx::place(mb as u128, eb);
            let (s, sneg) = if na == nb {
                (fa.add(&fb), na)
            } else {
                match fa.cmp(&fb) {
                    Ordering::Equal => return r == 0,
                    Ordering::Greater => (fa.sub(&fb), na),
                    Ordering::Less => (fb.sub(&fa), nb),
                }
            };
            is_rounded(r, n, es, sneg, |m, e| s.cmp(&Fx::place(m as u128, e)))
        }
    }
}

/// ordering of (A + sgn*B) relative to M, all positive dyadics with mantissas in [2^32, 2^33);
/// requires A >= B (as reals) and, when sub, A > B.  Exact:
///  * scale gap d = eA-eB < 64: S = (mA<<d) +- mB fits u128, compare S*2^eB with M.
///  * d >= 64: B < 2^(eA-31); A != M implies |A-M| > B, so the order is that of A vs M unless A == M,
///    where the sign of +-B decides.
pub fn cmp_sum(ma: u64, ea: i32, mb: u64, eb: i32, sub: bool, mm: u64, em: i32) -> Ordering {
    let d = ea - eb;
    if d < 64 {
        let s = if sub { ((ma as u128) << d) - (mb as u128) } else { ((ma as u128) << d) + (mb as u128) };
        cmp_dy(s, eb, mm as u128, em)
    } else {
        match cmp_dy(ma as u128, ea, mm as u128, em) {
            Ordering::Equal => if sub { Ordering::Less } else { Ordering::Greater },
            o => o,
        }
    }
}

pub fn add_ok2(a: u64, b: u64, r: u64, n: u32, es: u32) -> bool {
    match (decode(a, n, es), decode(b, n, es)) {
        (Dec::NaR, _) | (_, Dec::NaR) => r == nar(n),
        (Dec::Zero, _) => r == (b & ((1u64 << n) - 1)),
        (_, Dec::Zero) => r == (a & ((1u64 << n) - 1)),
        (Dec::Real { neg: na, m: ma, e: ea }, Dec::Real { neg: nb, m: mb, e: eb }) => {
            let (big_m, big_e, big_n, sm_m, sm_e) = match cmp_dy(ma as u128, ea, mb as u128, eb) {
                Ordering::Less => (mb, eb, nb, ma, ea),
                Ordering::Equal => {
                    if na != nb { return r == 0; }
                    (ma, ea, na, mb, eb)
                }
                Ordering::Greater => (ma, ea, na, mb, eb),
            };
            let sub = na != nb;
            is_rounded(r, n, es, big_n, |m, e| cmp_sum(big_m, big_e, sm_m, sm_e, sub, m, e))
        }
    }
}

/// exact product a*b placed in a two's-complement accumulator with `fb` fraction bits, as (magnitude u128, neg)
/// (valid when the product scaled by 2^fb is an integer < 2^127; true for P8/P16 quires)
pub fn prod_fixed_u128(a: u64, b: u64, n: u32, es: u32, fb: i32) -> Option<(u128, bool)> {
    match (decode(a, n, es), decode(b, n, es)) {
        (Dec::Real { neg: na, m: ma, e: ea }, Dec::Real { neg: nb, m: mb, e: eb }) => {
            let p = (ma as u128) * (mb as u128); // < 2^66
            let sh = ea + eb + fb;
            let v = if sh >= 0 { p << sh } else { p >> (-sh) };
            Some((v, na ^ nb))
        }
        _ => None,
    }
}

/// constructive posit rule: encode V = s*2^e (s>0) as n-bit positive posit magnitude, RNE on the bit string, saturating
pub fn round_encode_pos(s: u128, e: i32, n: u32, es: u32) -> u64 {
    let maxpos = (1u64 << (n - 1)) - 1;
    let lz = s.leading_zeros();
    let m = s << lz; // msb at bit 127
    let scale = e + 127 - lz as i32;
    let k = scale >> es;
    let ex = (scale - (k << es)) as u128;
    if k >= n as i32 - 2 {
        return maxpos;
    }
    if k < -(n as i32 - 2) {
        return 1;
    }
    let (rl, pat): (u32, u64) = if k >= 0 {
        ((k + 2) as u32, ((1u64 << (k + 1)) - 1) << 1) // k+1 ones then 0
    } else {
        ((1 - k) as u32, 1) // -k zeros then 1
    };
    let fr = m << 1; // drop hidden bit
    let sticky0 = es > 0 && (fr & ((1u128 << es) - 1)) != 0;
    let t: u128 = if es == 0 { fr } else { (ex << (128 - es)) | (fr >> es) };
    let kept = n - 1 - rl; // 0..=n-3
    let top = if kept == 0 { 0 } else { (t >> (128 - kept)) as u64 };
    let mag0 = (pat << kept) | top;
    let guard = (t >> (127 - kept)) & 1 == 1;
    let rest = t << (kept + 1);
    let sticky = rest != 0 || sticky0;
    let mag = mag0 + ((guard && (sticky || (mag0 & 1 == 1))) as u64);
    if mag > maxpos { maxpos } else { mag }
}

pub fn add_ok3(a: u64, b: u64, r: u64, n: u32, es: u32) -> bool {
    let mask = (1u64 << n) - 1;
    match (decode(a, n, es), decode(b, n, es)) {
        (Dec::NaR, _) | (_, Dec::NaR) => r == nar(n),
        (Dec::Zero, _) => r == (b & mask),
        (_, Dec::Zero) => r == (a & mask),
        (Dec::Real { neg: na, m: ma, e: ea }, Dec::Real { neg: nb, m: mb, e: eb }) => {
            let (big_m, big_e, big_n, sm_m, sm_e) = match cmp_dy(ma as u128, ea, mb as u128, eb) {
                Ordering::Less => (mb, eb, nb, ma, ea),
                Ordering::Equal => {
                    if na != nb { return r == 0; }
                    (ma, ea, na, mb, eb)
                }
                Ordering::Greater => (ma, ea, na, mb, eb),
            };
            let sub = na != nb;
            let d = big_e - sm_e;
            // exact sum as s*2^e with a sticky unit when the small operand is far below
            let (s, e) = if d < 64 {
                (if sub { ((big_m as u128) << d) - sm_m as u128 } else { ((big_m as u128) << d) + sm_m as u128 }, sm_e)
            } else {
                // A +- tiny: represent as (A<<64) +- 1 : same rounding as the exact value (tiny < 2^-31 ulp(A))
                (if sub { ((big_m as u128) << 64) - 1 } else { ((big_m as u128) << 64) + 1 }, big_e - 64)
            };
            let mag = round_encode_pos(s, e, n, es);
            let want = if big_n { mag.wrapping_neg() & mask } else { mag };
            r == want
        }
    }
}
